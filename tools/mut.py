#!/usr/bin/env python3
"""Sensitivity helper: copy the repository to a scratch dir, apply one textual
replacement (CRLF-safe) or a patch file, run a check against the copy, remove the copy.
usage: mut.py <check args...> -- <file> <old> <new>
       mut.py <check args...> --patch <patch.diff>
"""
import os, shutil, subprocess, sys, tempfile
args = sys.argv[1:]
if '--patch' in args:
    i = args.index('--patch'); chk = args[:i]; patch = args[i + 1]; repl = None
else:
    i = args.index('--'); chk = args[:i]; repl = args[i + 1:]
d = tempfile.mkdtemp(prefix='mut.', dir=os.environ.get('TMPDIR', '/tmp'))
try:
    subprocess.check_call(['rsync', '-a', '--exclude', '.git', '--exclude', '__pycache__', '/repo/', d + '/'])
    if repl:
        f, old, new = repl
        p = os.path.join(d, f)
        s = open(p, encoding='utf-8', newline='').read()
        old = old.replace('\n', '\r\n'); new = new.replace('\n', '\r\n')
        if s.count(old) != 1:
            print('pattern occurs %d times' % s.count(old)); sys.exit(3)
        open(p, 'w', encoding='utf-8', newline='').write(s.replace(old, new))
    else:
        subprocess.check_call(['git', 'init', '-q'], cwd=d)
        subprocess.check_call(['git', 'apply', '--whitespace=nowarn', os.path.abspath(patch)], cwd=d)
    env = dict(os.environ, VERIF_REPO=d, VERIF_OUT=os.path.join(d, '.verif-out'))
    if '--full' not in sys.argv:
        env['VERIF_FIRST'] = '1'
    chk = [a for a in chk if a != '--full']
    proc = subprocess.Popen(['/verif/vcheck'] + chk, env=env, cwd='/verif', start_new_session=True)
    rc = proc.wait()
    try:
        os.killpg(proc.pid, 9)      # servers / workers of shards that were stopped early
    except OSError:
        pass
    print('mutant rc =', rc)
    sys.exit(rc)
finally:
    shutil.rmtree(d, ignore_errors=True)
