#!/usr/bin/env python3
"""crlf_edit.py <file> <old> <new> : exact single replacement keeping CRLF line endings (old/new given with \n)"""
import sys
f, old, new = sys.argv[1:4]
s = open(f, encoding='utf-8', newline='').read()
crlf = '\r\n' in s
if crlf:
    old = old.replace('\n', '\r\n'); new = new.replace('\n', '\r\n')
if s.count(old) != 1:
    sys.exit('pattern occurs %d times' % s.count(old))
open(f, 'w', encoding='utf-8', newline='').write(s.replace(old, new))
