#!/usr/bin/env python3
"""seed_verify.py <dir with patch.diff, demo.py> : confirm a seeded change in a scratch copy of /repo:
patch applies, test suite passes with it, demo exits 1 with it and 0 without it."""
import os, shutil, subprocess, sys, tempfile, json
d = os.path.abspath(sys.argv[1])
tmp = tempfile.mkdtemp(prefix='seedv.', dir=os.environ.get('TMPDIR', '/tmp'))
res = {}
try:
    subprocess.check_call(['rsync', '-a', '--exclude', '.git', '--exclude', '__pycache__', '/repo/', tmp + '/'])
    subprocess.check_call(['git', 'init', '-q'], cwd=tmp)
    env = dict(os.environ, PYTHONDONTWRITEBYTECODE='1')
    env.pop('PYTHONPATH', None)
    r = subprocess.run(['/venv/bin/python', os.path.join(d, 'demo.py')], cwd=tmp, env=env, capture_output=True, text=True, timeout=600)
    res['demo_clean'] = r.returncode
    a = subprocess.run(['git', 'apply', '--whitespace=nowarn', os.path.join(d, 'patch.diff')], cwd=tmp, capture_output=True, text=True)
    res['apply'] = a.returncode
    if a.returncode == 0:
        r = subprocess.run(['/venv/bin/python', os.path.join(d, 'demo.py')], cwd=tmp, env=env, capture_output=True, text=True, timeout=600)
        res['demo_patched'] = r.returncode
        res['demo_out'] = (r.stdout + r.stderr)[-400:]
        if '--notests' not in sys.argv:
            t = subprocess.run(['unshare', '-n', 'sh', '-c', 'ip link set lo up; exec /venv/bin/python -m pytest -q -p no:cacheprovider -x'], cwd=tmp, env=env, capture_output=True, text=True, timeout=1800)
            res['tests'] = t.stdout.strip().splitlines()[-1] if t.stdout.strip() else t.stderr[-200:]
    else:
        res['apply_err'] = a.stderr[-300:]
    res['ok'] = (res.get('demo_clean') == 0 and res.get('demo_patched') == 1 and ('--notests' in sys.argv or ' passed' in res.get('tests', '') and 'failed' not in res.get('tests', '')))
finally:
    shutil.rmtree(tmp, ignore_errors=True)
print(json.dumps(res, indent=1))
sys.exit(0 if res.get('ok') else 1)
