#!/bin/sh
# Re-run every stored seeded change against the checks recorded in its meta.json (early-stop mode of tools/mut.py).
# usage: tools/regress_seeds.sh [log file]     - a line without "rc = 1" names a seed that is no longer detected
log=${1:-/tmp/regress.log}
: > $log
for d in /verif/seeded/*; do
  id=$(basename $d)
  checks=$(/venv/bin/python -c "import json; print(' '.join(json.load(open('$d/meta.json'))['detected_by_checks']))")
  for c in $checks; do
    out=$(/verif/tools/mut.py $c --patch $d/patch.diff 2>&1 | grep -E "mutant rc|HARNESS|^error:" | cut -c1-80 | tr '\n' ' ')
    echo "$id $c => $out" >> $log
  done
done
echo DONE >> $log
