#!/usr/bin/env python3
"""seed_keep.py <srcdir> <seed id> <property> <detected_by: comma list or 'none'> : store a confirmed seeded change under /verif/seeded/<id>/"""
import json, os, shutil, subprocess, sys
src, sid, prop, det = sys.argv[1:5]
dst = os.path.join('/verif/seeded', sid)
os.makedirs(dst, exist_ok=True)
for f in ('patch.diff', 'demo.py', 'notes.md'):
    shutil.copy(os.path.join(src, f), os.path.join(dst, f))
r = subprocess.run(['/verif/tools/seed_verify.py', dst] + sys.argv[5:], capture_output=True, text=True)
v = json.loads(r.stdout)
meta = {'id': sid, 'breaks_property': prop, 'origin': 'independent sub-agent given only the property text and a scratch worktree',
        'needs_to_manifest': open(os.path.join(dst, 'notes.md')).read().strip(),
        'confirmed': {'patch_applies_to_repo_head': v.get('apply') == 0, 'existing_tests_with_patch': v.get('tests'),
                      'demo_exit_with_patch': v.get('demo_patched'), 'demo_exit_without_patch': v.get('demo_clean'),
                      'how': 'tools/seed_verify.py in a scratch copy of /repo (removed afterwards)'},
        'detected_by_checks': [] if det == 'none' else det.split(',')}
json.dump(meta, open(os.path.join(dst, 'meta.json'), 'w'), indent=1)
print(sid, v.get('ok'), meta['detected_by_checks'])
