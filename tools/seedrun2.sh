#!/bin/sh
# seedrun2.sh <logfile> <dir> <prop/variant:check[,check]> ...
log=$1; dir=$2; shift; shift
for spec in "$@"; do
  pv=${spec%%:*}; checks=${spec#*:}
  for c in $(echo $checks | tr ',' ' '); do
    out=$(/verif/tools/mut.py $c --patch $dir/$pv/patch.diff 2>&1 | grep -E "kind:|mutant rc|HARNESS|error:" | cut -c1-120 | tr '\n' ' ')
    echo "$pv $c => $out" >> $log
  done
done
echo DONE >> $log
