#!/usr/bin/env python3
"""Regenerate the table of section 8 of DESIGN.md from seeded/*/meta.json (strengthening notes are kept here)."""
import glob, json, os, re
NOTES = {
 'C03-J': 'missed at first; a glossary entry of the definitions file now has an unbraced value with an inner group that contains a comma',
 'C14-J': 'missed by C14 at first (caught by C01: text and map of different length); short insertions of the multi-language generator shared by C12 and C14 now begin with no, one or several white-space characters - caught by C12 and C14 as well',
 'C02-I': 'not seen by C02 (which runs without replacements); caught by C13, whose property it also breaks',
 'C03-I': 'not seen by C03 (no document of the shared generator loads a package twice); C09 got a metamorphic run: a user redefinition of a package macro must survive a repeated \\usepackage, class options varied',
 'C08-I': 'missed at first; the file read in front of the fault now also reads a further file or loads packages that define macros by LaTeX text (two nesting levels)',
 'C13-I': 'missed at first; rule lines without & added (de-facto reading "whole line is the phrase, empty replacement" and the reading "line ignored" both accepted)',
 'C15-I': 'missed at first; document with removed lines between two text lines, every offset / length pair inside the text (incl. length 0) in all five report formats',
 'C18-I': 'missed at first; skip region whose opening marker is the first token of the text or directly follows the end marker of the previous region',
 'C02-G': 'caught by the check as it stood (re-based after fix F25 touched the same lines)',
 'C02-H': 'missed at first; a share of the environment delimiters is rendered with white space between \\begin / \\end and the name',
 'C03-G': 'missed at first; brackets as text (a closing one anywhere, both kinds inside a group) - all optional arguments of the renderer are written as [{..}]',
 'C03-H': 'missed at first (an early "detection" was a generator artefact, see section 9); commented-out skip markers added as comments',
 'C04-G': 'missed at first; user macro whose body is a verbatim environment added to the generating macros',
 'C05-H': 'missed at first; a paragraph break is now claimed across a skip region (other separations across it still carry no claim)',
 'C09-G': 'missed at first; optional argument given without protecting braces and containing an opening bracket',
 'C09-H': 'missed at first; in every second document the name of each later macro is a proper prefix of the earlier names',
 'C10-G': 'missed at first; runs of two maths spaces at the ends of a formula',
 'C10-H': 'missed at first; negative thin space between the delimiter and a maths space',
 'C11-G': 'missed at first; user macros whose body is a single capital letter (also letters of the error mark)',
 'C11-H': 'missed at first (caught by C10, whose multi-language runs put formulas into English and German parts); C11 got a metamorphic multi-language run: a foreign-language equation must not change the placeholders of the main-language text',
 'C12-H': 'missed at first; the placeholder of a short insertion must come from the collection of the surrounding language (oracle was: any collection)',
 'C13-G': 'missed at first; rules read from a file by read_replacements(), last line with and without line end',
 'C13-H': 'missed at first; runs with the main language left at its default, main-language part identified independently of its key',
 'C14-H': 'not seen by C14; caught by C16 after the line number in front of overlap-list entries was checked',
 'C15-H': 'missed at first; proofreader strings with backslash sequences and per-cent signs',
 'C16-G': 'missed at first; per-cent signs and backslashes in messages (also caught by C15 as a traceback)',
 'C16-H': 'missed at first; shell sample also with files that lack the final line break',
 'C17-H': 'missed at first; pool pairs that rewrite an included file (glossary definitions, cleveref sed file) between two calls',
 'C18-G': 'missed at first; \\def macro whose body calls two listed macros, used once or twice',
 'C18-H': 'missed at first; \\input / \\include shown inside lstlisting, tikzpicture and a skip region of the scanned files',
 'C19-G': 'missed at first; footnotes attached to inline and displayed formulas as text contexts',
 'C01-F': 'caught by luck of the draw at first (one seed value) and missed after later generator changes; every catalogued macro / environment is now also wrapped in the body of a three-character macro called at the end of the text, and documents are cut behind macro calls - detected at every seed value tried',
 'C05-A': 'caught by luck of the draw at first and missed after later generator changes; paragraph separators with a comment followed by a blank-but-not-empty line added - detected at every seed value tried',
 'C01-B': 'missed at first; glossary entries got a long white-space run and blanks inside generated text are now checked (also caught by C04)',
 'C02-B': 'missed at first; definer macro (\\zzstore / \\zzcur) added to the catalogue',
 'C04-A': 'caught after the definer macro was added',
 'C07-A': 'missed at first; definition-shape generator (\\def with delimited parameter text) added',
 'C09-A': 'missed at first; bodies with digits directly behind #k added',
 'C13-A': 'missed at first; replacement texts with backslashes added',
 'C13-B': 'missed at first; identity rules (right side = left side) added',
 'C14-B': 'missed at first; words ending in a non-ASCII letter added',
 'C15-A': 'missed at first; integral floats / numeric strings / booleans added to the type changes',
 'C17-A': 'missed at first; pool entries with unknown babel language names added',
 'C17-B': 'missed at first; server started with --lt-options, proofreader argv compared',
 'C02-C': 'not seen by C02 (which runs without replacements); caught by C13, whose property it also breaks',
 'C02-D': 'not seen by C02 (single-language runs); caught by C12 (word position in the part)',
 'C05-C': 'missed at first; weak separator claim for the text of simple generating macros (\\LaTeX, \\ref, \\gls) added; lost again after later generator changes until arguments consisting of exactly one such control word were generated on purpose',
 'C05-D': 'missed at first; otherlanguage / otherlanguage* environments added to the catalogue',
 'C07-C': 'caught by luck of the draw at first and missed after later generator changes; every catalogued macro is now run with an argument that begins with a language switch, in multi-language mode',
 'C07-D': 'missed at first; extraction lists naming zero-argument macros added to the option vectors',
 'C08-C': 'missed at first; \\LTinput of an empty / comment-only file in front of the fault added',
 'C08-D': 'missed at first; \\LTinput of an undecodable file added as fault kind',
 'C09-C': 'missed at first; blanks of macro bodies are now checked, arguments consisting of one control word added',
 'C11-D': 'missed at first; all starred amsmath environments added',
 'C19-C': 'missed at first; comment directly behind \\\\ added as hidden context',
 'C19-D': 'missed at first; shell route run with option mixes (--multi-language, --output json ..)',
 'C06-C': 'missed at first; letter x in the alphabet and a quarter of the runs with the no-specials option',
 'C14-C': 'missed at first; family of words whose source is longer than their plain text (accent macro, group boundary, comment + line break inside)',
 'C14-D': 'missed by C14 at first (caught by C17); C14 now starts its server with --lt-options and checks the proofreader argv per request',
 'C15-D': 'missed by C15 at first (caught by C16); answers with a long multi-line match followed by short ones, at context 0',
 'C16-C': 'missed at first; form feed, U+2028 and other exotic line separators added to the source alphabet',
 'C17-D': 'missed at first; pool pairs with equal document class and different package lists added',
 'C18-C': 'missed at first; left-over LT-SKIP-END marker in front of a complete skip region',
 'C18-D': 'missed at first; removed environments (lstlisting, tikzpicture with inner environments) added as hidden contexts after fix F2',
 'C01-E': 'missed at first; \\LTinput of a file with a language switch far behind the length of the main text added to the soup',
 'C02-E': 'missed at first; every fourth document now runs without biblatex (built-in \\cite with \\verb in its note)',
 'C02-F': 'not seen by C02; caught by C11 after \\text parts wrapped in macro arguments were added',
 'C03-E': 'missed at first; control word directly followed by a word starting with a non-ASCII letter (the renderer no longer separates them)',
 'C03-F': 'missed at first; glossary entry containing a control word, used through \\GLS',
 'C04-E': 'missed at first; heading inside the body of a user macro',
 'C08-F': 'missed at first; well-formed accent forms on dotless i / j must stay silent',
 'C10-F': 'missed at first; formulas ending in \\dots / \\ldots / \\cdots',
 'C09-F': 'missed at first; the definitions file is also read twice (\\LTinput of the same file two times)',
 'C11-F': 'missed at first; := and further operators at the start of aligned sections',
 'C12-E': 'missed at first; main language given as class option with babel loaded with other options',
 'C13-F': 'missed at first; phrase words with & glued in (R&D)',
 'C14-E': 'missed at first; one-character matches on escaped specials (\\& \\%) with a macro later in the file',
 'C14-F': 'missed at first; U+2028 in front of flagged words',
 'C15-E': 'missed at first; html runs use --link',
 'C17-E': 'missed at first; server started with --replace, requests containing the phrase',
 'C17-F': 'missed at first; two cleveref sed files with different labels in one history',
 'C18-E': 'missed at first; a file whose name is the tail of another one, --skip patterns matching only the shorter name',
 'C18-F': 'missed at first; file names with a dot inside',
 'C19-E': 'missed at first; comment line directly in front of the LT-SKIP marker',
 'C19-F': 'missed at first; unknowns list requested together with a replacement list',
 'C20-E': 'missed at first; accept lists with prefix pairs, exact model of the list order',
 'C20-C': 'missed at first; shell sample also run with --multi-language and language-change placeholders',
}
rows = []
for d in sorted(glob.glob('/verif/seeded/*')):
    sid = os.path.basename(d)
    meta = json.load(open(d + '/meta.json'))
    notes = re.sub(r'\s+', ' ', open(d + '/notes.md', encoding='utf-8').read().strip())
    short = (notes[:230].rsplit(' ', 1)[0] + ' ...').replace('|', '\\|')
    meta['strengthening'] = NOTES.get(sid, 'caught by the check as first built')
    meta['round'] = 6 if sid[-1] == 'J' else 5 if sid[-1] == 'I' else 4 if sid[-1] in 'GH' else 3 if sid[-1] in 'EF' else (2 if sid[-1] in 'CD' else 1)
    json.dump(meta, open(d + '/meta.json', 'w'), indent=1, ensure_ascii=False)
    det = ', '.join(meta['detected_by_checks']) + (', C04' if sid == 'C01-B' else '')
    rows.append('| %s | %s | %s | %s |' % (sid, det, short, meta['strengthening']))
p = '/verif/DESIGN.md'
s = open(p, encoding='utf-8').read()
a = s.index('| seed | detected by |')
b = s.index('\n\n', a)
head = '| seed | detected by | what it changes (from the author\'s notes) | strengthening |\n|------|-------------|--------------------------------------------|---------------|\n'
s = s[:a] + head + '\n'.join(rows) + s[b:]
open(p, 'w', encoding='utf-8').write(s)
print(len(rows), 'seeds;', sum(1 for r in rows if 'missed' in r.rsplit('|', 2)[-2]), 'needed strengthening')
