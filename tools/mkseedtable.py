#!/usr/bin/env python3
"""Regenerate the table of section 8 of DESIGN.md from seeded/*/meta.json (strengthening notes are kept here)."""
import glob, json, os, re
NOTES = {
 'C01-B': 'missed at first; glossary entries got a long white-space run and blanks inside generated text are now checked (also caught by C04)',
 'C02-B': 'missed at first; definer macro (\\zzstore / \\zzcur) added to the catalogue',
 'C04-A': 'caught after the definer macro was added',
 'C07-A': 'missed at first; definition-shape generator (\\def with delimited parameter text) added',
 'C09-A': 'missed at first; bodies with digits directly behind #k added',
 'C13-A': 'missed at first; replacement texts with backslashes added',
 'C13-B': 'missed at first; identity rules (right side = left side) added',
 'C14-B': 'missed at first; words ending in a non-ASCII letter added',
 'C15-A': 'missed at first; integral floats / numeric strings / booleans added to the type changes',
 'C17-A': 'missed at first; pool entries with unknown babel language names added',
 'C17-B': 'missed at first; server started with --lt-options, proofreader argv compared',
 'C02-C': 'not seen by C02 (which runs without replacements); caught by C13, whose property it also breaks',
 'C02-D': 'not seen by C02 (single-language runs); caught by C12 (word position in the part)',
 'C05-C': 'missed at first; weak separator claim for the text of simple generating macros (\\LaTeX, \\ref, \\gls) added',
 'C05-D': 'missed at first; otherlanguage / otherlanguage* environments added to the catalogue',
 'C07-D': 'missed at first; extraction lists naming zero-argument macros added to the option vectors',
 'C08-C': 'missed at first; \\LTinput of an empty / comment-only file in front of the fault added',
 'C08-D': 'missed at first; \\LTinput of an undecodable file added as fault kind',
 'C09-C': 'missed at first; blanks of macro bodies are now checked, arguments consisting of one control word added',
 'C11-D': 'missed at first; all starred amsmath environments added',
 'C19-C': 'missed at first; comment directly behind \\\\ added as hidden context',
 'C19-D': 'missed at first; shell route run with option mixes (--multi-language, --output json ..)',
}
rows = []
for d in sorted(glob.glob('/verif/seeded/*')):
    sid = os.path.basename(d)
    meta = json.load(open(d + '/meta.json'))
    notes = re.sub(r'\s+', ' ', open(d + '/notes.md', encoding='utf-8').read().strip())
    short = (notes[:230].rsplit(' ', 1)[0] + ' ...').replace('|', '\\|')
    meta['strengthening'] = NOTES.get(sid, 'caught by the check as first built')
    meta['round'] = 2 if sid[-1] in 'CD' else 1
    json.dump(meta, open(d + '/meta.json', 'w'), indent=1, ensure_ascii=False)
    det = ', '.join(meta['detected_by_checks']) + (', C04' if sid == 'C01-B' else '')
    rows.append('| %s | %s | %s | %s |' % (sid, det, short, meta['strengthening']))
p = '/verif/DESIGN.md'
s = open(p, encoding='utf-8').read()
a = s.index('| seed | detected by |')
b = s.index('\n\n', a)
head = '| seed | detected by | what it changes (from the author\'s notes) | strengthening |\n|------|-------------|--------------------------------------------|---------------|\n'
s = s[:a] + head + '\n'.join(rows) + s[b:]
open(p, 'w', encoding='utf-8').write(s)
print(len(rows), 'seeds;', sum(1 for r in rows if 'missed at first' in r), 'needed strengthening')
