#!/venv/bin/python
"""Regenerate MANIFEST.json from the property modules (props/cNN_*.py)."""
import importlib, json, os, sys
HERE = os.path.dirname(os.path.dirname(os.path.abspath(__file__)))
sys.path.insert(0, HERE)
os.environ.setdefault('PYTHONHASHSEED', '0')
props = [json.loads(l) for l in open(os.path.join(HERE, 'properties.jsonl'))]
mods = {}
for f in sorted(os.listdir(os.path.join(HERE, 'props'))):
    if f.startswith('c') and f.endswith('.py'):
        m = importlib.import_module('props.' + f[:-3])
        if hasattr(m, 'ID') and hasattr(m, 'run_shard') and getattr(m, 'REGISTER', True):
            mods[m.ID] = m
checks = []
na = []
for p in props:
    pid = p['id']
    if pid in mods:
        m = mods[pid]
        checks.append({
            'property_id': pid,
            'quick_cmd': './vcheck %s --tier quick' % pid,
            'thorough_cmd': './vcheck %s --tier thorough' % pid,
            'evidence_file': 'evidence/%s.json' % pid,
            'replay_cmd_template': './vcheck %s --replay {path}' % pid,
            'engine': 'vcheck',
            'level_claimed': {'category': m.LEVEL, 'text': m.LEVEL_TEXT,
                              'design_ref': 'DESIGN.md section 4, ' + pid},
            'level_note': m.LEVEL_NOTE,
            'technique': m.TECHNIQUE,
        })
    else:
        na.append({'property_id': pid, 'reason': 'check still under construction in this build round (design in DESIGN.md section 4); not claimed until its check is registered here'})
man = {
    'version': 1,
    'setup_cmd': './setup.sh',
    'hooks': {'guard': 'YALAFI_VERIF', 'enable': 'no hooks are needed: checks import /repo/yalafi from the working tree (pure Python, no build step); the variable YALAFI_VERIF=1 is exported for subprocesses but nothing in the repository reads it',
              'baseline_off_cmd': 'cd /repo && /venv/bin/python -m pytest -ra -q -p no:cacheprovider --timeout=900 --continue-on-collection-errors',
              'source_commits': [], 'add_only': True},
    'engines': [{'name': 'vcheck', 'path': 'vcheck', 'serves_properties': sorted(mods),
                 'kind_free_text': 'property-based testing / fuzzing runner: Hypothesis strategies and seeded PRNG / exhaustive enumerations drive the real YaLafi code from /repo; explicit oracles (reference models, differential, metamorphic, invariants); 16 shard processes; watchdog; replay files'}],
    'checks': checks,
    'not_applicable': na,
    'notes': 'All checks: exit 0 held / 1 VIOLATION line / 2 harness error (inconclusive). VERIF_SEED and VERIF_TIER honoured. Known findings: known_findings.json. See DESIGN.md.',
}
json.dump(man, open(os.path.join(HERE, 'MANIFEST.json'), 'w'), indent=1)
print('checks:', [c['property_id'] for c in checks]); print('not claimed:', [n['property_id'] for n in na])
try:
    import jsonschema
    jsonschema.validate(man, json.load(open('/root/.vp/MANIFEST.schema.json')))
    print('manifest valid')
except ImportError:
    print('jsonschema not available')
