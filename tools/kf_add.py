#!/usr/bin/env python3
"""kf_add.py <replay.json> <Fxx> <commit> <what...> : append a 'fixed' entry (with the replay case) to known_findings.json"""
import json, sys
rep, fid, commit = sys.argv[1:4]
what = ' '.join(sys.argv[4:])
r = json.load(open(rep))
k = json.load(open('/verif/known_findings.json'))
assert not any(e['id'] == fid and e['property'] == r['property'] for e in k['findings'])
k['findings'].append({'property': r['property'], 'id': fid, 'status': 'fixed', 'commit': commit,
                      'record': 'fixed: property=%s %s %s' % (r['property'], commit, what), 'what': what, 'case': r['case']})
json.dump(k, open('/verif/known_findings.json', 'w'), indent=1, ensure_ascii=False)
print('added', fid, r['property'], r['kind'])
