#!/bin/sh
# seedrun.sh <logfile> <prop/variant:check[,check]> ...   run checks against seeded patches in scratch copies
log=$1; shift
for spec in "$@"; do
  pv=${spec%%:*}; checks=${spec#*:}
  for c in $(echo $checks | tr ',' ' '); do
    out=$(VERIF_SHARDS=${VERIF_SHARDS:-16} /verif/tools/mut.py $c --patch /tmp/seeded/$pv/patch.diff 2>&1 | grep -E "kind:|mutant rc|HARNESS" | tr '\n' ' ')
    echo "$pv $c => $out" >> $log
  done
done
echo DONE >> $log
