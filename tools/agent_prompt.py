#!/usr/bin/env python3
"""Print the prompt given to a mutant-writing sub-agent for one property.
Only the property text and the worktree path are disclosed - nothing from /verif."""
import json, sys
pid = sys.argv[1]
for l in open('/verif/properties.jsonl'):
    p = json.loads(l)
    if p['id'] == pid:
        break
wt = '/tmp/wt/' + pid
out = '/tmp/seeded/' + pid
print(f"""You are helping to evaluate a verification framework for the open-source project YaLafi (matze-dd/YaLafi, a pure-Python LaTeX-to-plain-text filter with a LanguageTool shell). Your job: write TWO independent, realistic, subtle bug-introducing changes ("seeded defects") to YaLafi that each break the semantic property below, while the project's existing test suite still passes.

You have your own scratch git worktree of the repository at {wt} . Work ONLY there (never touch /repo or /verif, never read anything under /verif). Python to use: /venv/bin/python . Run things from inside the worktree (cd {wt}) so that the worktree's `yalafi` package is imported (check with `/venv/bin/python -c "import yalafi; print(yalafi.__file__)"`). NOTE: the source files use CRLF line endings; keep them (edit with the Edit tool, which preserves them, and produce patches with `git diff`).

THE PROPERTY ({p['id']}: {p['title']})
Statement: {p['statement']}
Quantified over: {p['quantifier']['text']}
Relevant files: {', '.join(p['anchors']['files'])}
Mechanisms meant to make it hold: {json.dumps(p['anchors']['mechanism'])}
Observe at: {json.dumps(p['anchors'].get('observe_at'))}

REQUIREMENTS for each of the two changes (call them A and B; they must have different root causes in different functions or code paths):
1. It is a plausible slip a developer could make (off-by-one, wrong variable, dropped copy, missing branch, reordered condition, optimisation that is wrong in a corner case, two cooperating sites that each look fine alone ...), NOT an obviously sabotaging change, and it must need something specific to manifest: an unusual input, a particular nesting or combination of constructs, a multi-step sequence, a particular option combination - something ordinary use and the existing tests would not expose at once. Prefer changes where simple documents still work.
2. The code still imports and the complete existing test suite still passes with the change: `cd {wt} && /venv/bin/python -m pytest -q -p no:cacheprovider -x` (takes about 30 s; 454 tests) must report all passed. (The shell tests use the fixed TCP port 8081; other people may run the suite concurrently on this machine, which makes tests/test_shell* fail spuriously. Run the suite inside its own network namespace to avoid that: `unshare -n sh -c 'ip link set lo up; cd {wt} && /venv/bin/python -m pytest -q -p no:cacheprovider -x'`.) Demos run as scripts should put the current directory first on sys.path (`sys.path.insert(0, os.getcwd())`) so that the tree's yalafi is imported.
3. It genuinely violates the property as stated (not merely changes some unspecified behaviour). Re-read the statement; stay inside what it quantifies over (e.g. do not rely on documents the statement excludes).
4. You provide a demonstration: a small stand-alone Python program that exits with status 1 (printing what went wrong) when run against the changed code and exits 0 against the unchanged code. It is run as `cd <tree> && /venv/bin/python <demo>`; it must import yalafi from the current directory (or start `python -m yalafi...` subprocesses with cwd there) and must not depend on the network.

DELIVERABLES (write exactly these files):
- {out}/A/patch.diff   (output of `git diff` in the worktree with only change A applied)
- {out}/A/demo.py
- {out}/A/notes.md      (2-6 lines: what was changed, why it breaks the property, what it needs in order to manifest)
- the same under {out}/B/
Before finishing: for each change, starting from a clean worktree (`git checkout -- .`), apply the patch with `git apply`, run the full test suite (must pass) and the demo (must exit 1); then `git checkout -- .` and run the demo again (must exit 0). Leave the worktree clean at the end. Report briefly what you did and the final verification results."""
)
