#!/bin/sh
# offline set-up: the checks need hypothesis in /venv (already there on this image; installed from the wheelhouse otherwise)
/venv/bin/python -c "import hypothesis" 2>/dev/null || \
  /venv/bin/pip install --no-index --find-links /opt/veriftools/wheels hypothesis || exit 1
/venv/bin/python -c "import hypothesis, sys; print('hypothesis', hypothesis.__version__)"
mkdir -p evidence replays
