"""Evaluate a filter result against the annotations of a generated document."""
import re

from vlib import docgen
from vlib.docgen import isblank

BLANKLINE = re.compile(r'\n[ \t]*\n')


class Verdicts:
    """per-aspect findings for one document; empty lists = holds"""

    def __init__(self):
        self.c01 = []
        self.seq = None         # C03: sequence mismatch detail
        self.leak = []          # C03: hidden words visible
        self.c02 = []
        self.c04 = []
        self.c05 = []
        self.stderr = None      # C08 negative half
        self.mark = False
        self.aligned = False
        self.counts = {}


def evaluate(m, plain, pos, err, mark='LATEXXXERROR'):
    v = Verdicts()
    src = m.source()
    n = len(src)
    if len(plain) != len(pos):
        v.c01.append(('length', len(plain), len(pos)))
        return v
    bad = [(i, p) for i, p in enumerate(pos) if not (1 <= p <= n)]
    if bad:
        v.c01.append(('range', bad[:5], n))
    if err:
        v.stderr = err
    if mark in plain:
        v.mark = True
    for h in m.hidden:
        if h in plain:
            v.leak.append(h)

    exp = docgen.expected_nonblank(m)
    act = [(c, pos[i], i) for i, c in enumerate(plain) if not isblank(c)]
    et = ''.join(e[0] for e in exp)
    at = ''.join(a[0] for a in act)
    if et != at:
        k = next((i for i in range(min(len(et), len(at))) if et[i] != at[i]), min(len(et), len(at)))
        v.seq = {'expected': et, 'actual': at, 'first_difference_at': k,
                 'expected_there': et[k:k + 25], 'actual_there': at[k:k + 25]}
        # C02 without alignment: every occurrence of a unique copied word must map to its own offset
        for f, _, _ in docgen.flows_of(m):
            for a in f:
                if a[0] == 'w' and a[3] == 'word':
                    occ = [pos[mt.start():mt.end()] for mt in re.finditer(re.escape(a[1]), plain)]
                    want = list(range(a[2] + 1, a[2] + 1 + len(a[1])))
                    # further occurrences may be generated text (a stored macro recalled later): one position for all characters
                    if occ and (want not in occ or any(g != want and len(set(g)) != 1 for g in occ)):
                        v.c02.append({'word': a[1], 'expected': want, 'actual': occ})
        return v
    v.aligned = True
    nw = ng = 0
    # exact / interval positions
    loc = {}
    for e, a in zip(exp, act):
        c, lo, hi, kind, fi, ai = e
        key = (fi, ai)
        if key not in loc:
            loc[key] = [a[2], a[2] + 1]
        else:
            loc[key][1] = a[2] + 1
        if kind in 'wc':
            nw += 1
            if a[1] != lo:
                v.c02.append({'char': c, 'kind': kind, 'expected': lo, 'actual': a[1], 'plain_index': a[2]})
            elif kind == 'w' and src[a[1] - 1] != c:
                v.c02.append({'char': c, 'kind': kind, 'source_char': src[a[1] - 1], 'actual': a[1]})
        else:
            ng += 1
            if not (lo <= a[1] <= hi):
                v.c04.append({'char': c, 'span': [lo, hi], 'actual': a[1], 'plain_index': a[2]})
    v.counts['copied_chars'] = nw
    v.counts['generated_chars'] = ng

    # white space: C02 for blanks inside copied atoms (verbatim), C04 containment, C05 adjacency
    flows = docgen.flows_of(m)
    for fi, (f, flo, fhi) in enumerate(flows):
        located = [(ai, loc[(fi, ai)]) for ai in range(len(f)) if (fi, ai) in loc]
        # C04: blanks between two located atoms map between the start of the first and the end of the second span
        for (a1, l1), (a2, l2) in zip(located, located[1:]):
            lo_ = span_of(f[a1])[0]
            hi_ = span_of(f[a2])[1]
            if a1 == a2:
                continue
            for i in range(l1[1], l2[0]):
                if not (min(lo_, span_of(f[a2])[0]) <= pos[i] <= max(hi_, span_of(f[a1])[1])):
                    v.c04.append({'blank_between': [atom_txt(f[a1]), atom_txt(f[a2])], 'allowed': [lo_, hi_],
                                  'actual': pos[i], 'plain_index': i})
        if fi > 0 and located:
            # separator in front of a detached flow: three line breaks generated for the
            # detached construct, hence mapped to one position inside it
            first = located[0][1][0]
            prev_end = max((l[1] for (ffi, _), l in loc.items() if ffi < fi), default=0)
            ok = False
            for i in range(prev_end, first - 2):
                if plain[i:i + 3] == '\n\n\n' and pos[i] == pos[i + 1] == pos[i + 2] and flo + 1 <= pos[i] <= fhi:
                    ok = True
                    break
            if not ok:
                v.c04.append({'detached_flow_separator': plain[prev_end:first], 'positions': pos[prev_end:first],
                              'span': [flo + 1, fhi]})
        # blanks inside the text of one generating construct map into its span, too
        for ai, l in located:
            a = f[ai]
            if a[0] == 'g':
                for i in range(l[0], l[1]):
                    if not (a[2] + 1 <= pos[i] <= a[3]):
                        v.c04.append({'inside_generated_text': a[1], 'span': [a[2] + 1, a[3]], 'actual': pos[i], 'plain_index': i})
                        break
        # copied atoms with inner blanks (verbatim material): the inner part is copied verbatim
        for ai, l in located:
            a = f[ai]
            if a[0] == 'w' and a[3] != 'word':
                inner = a[1].strip(' \n\t')
                k0 = a[1].index(inner) if inner else 0
                if plain[l[0]:l[1]] != inner or pos[l[0]:l[1]] != list(range(a[2] + k0 + 1, a[2] + k0 + 1 + len(inner))):
                    v.c02.append({'verbatim': a[1], 'expected_offset': a[2] + k0 + 1, 'actual_text': plain[l[0]:l[1]],
                                  'actual_positions': pos[l[0]:l[1]]})
        # C05
        for i, j, cls in docgen.adjacency(f):
            if (fi, i) not in loc or (fi, j) not in loc:
                continue
            b = plain[loc[(fi, i)][1]:loc[(fi, j)][0]]
            if loc[(fi, i)][1] > loc[(fi, j)][0]:
                continue        # duplicated argument: second copy precedes
            blank = BLANKLINE.search(b) is not None
            v.counts['pairs_' + cls] = v.counts.get('pairs_' + cls, 0) + 1
            if cls == 'P' and not blank:
                v.c05.append({'problem': 'paragraph break lost', 'between': [f[i][1], f[j][1]], 'output_between': b})
            elif cls == 'S' and (not b or not all(isblank(c) for c in b) or blank):
                v.c05.append({'problem': 'words glued' if not b else ('paragraph break invented' if blank else 'separator not blank'),
                              'between': [f[i][1], f[j][1]], 'output_between': b})
            elif cls == 'Sw' and not any(isblank(c) for c in b):
                v.c05.append({'problem': 'words glued', 'between': [f[i][1], f[j][1]], 'output_between': b})
            elif cls == 'G' and blank:
                v.c05.append({'problem': 'paragraph break invented', 'between': [f[i][1], f[j][1]], 'output_between': b})
    return v


def span_of(a):
    if a[0] == 'w':
        if len(a) > 4 and a[4]:
            return a[4]         # verbatim material: span of the whole \\verb / environment
        return (a[2] + 1, a[2] + len(a[1]))
    if a[0] == 'c':
        return (a[2] + 1, a[2] + len(a[3]))
    return (a[2] + 1, a[3])


def atom_txt(a):
    return a[1]
