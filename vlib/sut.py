"""The only module that touches YaLafi.

In-process calls import the package from the repository working tree
(VERIF_REPO, default /repo) and refuse to run against anything else;
subprocess drivers start /venv/bin/python with PYTHONPATH pointing there.
"""
import contextlib
import io
import os
import shutil
import subprocess
import sys
import tempfile

REPO = os.path.realpath(os.environ.get('VERIF_REPO', '/repo'))
PYTHON = '/venv/bin/python'
GUARD = 'YALAFI_VERIF'


class HarnessError(Exception):
    pass


def _import():
    if sys.path[0] != REPO:
        sys.path.insert(0, REPO)
    import yalafi
    f = os.path.realpath(yalafi.__file__)
    if not f.startswith(REPO + os.sep):
        raise HarnessError('yalafi imported from %s, not from %s' % (f, REPO))
    return yalafi


yalafi = _import()
from yalafi import tex2txt as _t2t          # noqa: E402
from yalafi import utils as yutils          # noqa: E402
from yalafi import parameters as yparameters    # noqa: E402
from yalafi import parser as yparser        # noqa: E402
from yalafi import defs as ydefs            # noqa: E402

Options = _t2t.Options


def tex2txt(src, ml=False, thresh=None, **kw):
    """Run the filter in-process.  Returns (result, stderr_text).
    Exceptions (incl. SystemExit) propagate to the caller."""
    opts = _t2t.Options(**kw)
    err = io.StringIO()
    mod = None
    if thresh is not None:
        def mod(p):
            p.ml_continue_thresh = thresh
    old = sys.stderr
    sys.stderr = err
    try:
        r = _t2t.tex2txt(src, opts, multi_language=ml, modify_parms=mod)
    finally:
        sys.stderr = old
    return r, err.getvalue()


def parts_of(result, ml):
    """uniform view: list of (lang, plain, charmap)"""
    if not ml:
        return [(None, result[0], result[1])]
    return [(lang, p[0], p[1]) for lang in result for p in result[lang]]


# --------------------------------------------------------------- scratch area

_scratch = None


def scratch_dir():
    """per-process scratch directory outside /repo and /verif, removed at exit"""
    global _scratch
    if _scratch is None or _scratch[0] != os.getpid():
        base = os.environ.get('TMPDIR', '/tmp')
        d = tempfile.mkdtemp(prefix='yalafi-verif.%d.' % os.getpid(), dir=base)
        _scratch = (os.getpid(), d)
        import atexit
        atexit.register(_cleanup, os.getpid(), d)
    return _scratch[1]


def _cleanup(pid, d):
    if os.getpid() == pid:
        shutil.rmtree(d, ignore_errors=True)


def cleanup_now():
    global _scratch
    if _scratch is not None and _scratch[0] == os.getpid():
        shutil.rmtree(_scratch[1], ignore_errors=True)
        _scratch = None


def sub_env(extra=None):
    env = dict(os.environ)
    env['PYTHONPATH'] = REPO
    env['PYTHONHASHSEED'] = '0'
    env['PYTHONDONTWRITEBYTECODE'] = '1'
    env['PYTHONIOENCODING'] = 'utf-8'
    env[GUARD] = '1'
    if extra:
        env.update(extra)
    return env


def run_cli(module, args, cwd, stdin=None, timeout=120, env=None):
    """python -m <module> args ; returns (exit status, stdout bytes, stderr bytes)"""
    p = subprocess.run([PYTHON, '-B', '-m', module] + list(args), cwd=cwd,
                       input=stdin, stdout=subprocess.PIPE,
                       stderr=subprocess.PIPE, env=sub_env(env),
                       timeout=timeout)
    return p.returncode, p.stdout, p.stderr


FAKELT = os.path.join(os.path.dirname(os.path.abspath(__file__)), 'fakelt.py')


def run_shell(args, cwd, plan=None, timeout=120, stdin=None):
    """python -m yalafi.shell with the fake proofreader; plan = dict written to <cwd>/plan.json"""
    import json as _json
    a = ['--no-config']
    if plan is not None:
        pf = os.path.join(cwd, 'plan.json')
        with open(pf, 'w', encoding='utf-8') as f:
            _json.dump(plan, f, ensure_ascii=False)
        a += ['--lt-command', '/usr/bin/python3 -S %s %s' % (FAKELT, pf)]
    return run_cli('yalafi.shell', a + list(args), cwd=cwd, timeout=timeout, stdin=stdin)
