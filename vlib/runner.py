"""Seeds, tiers, sharding, watchdog, known findings, evidence, exit codes.

A property module (props/cNN_*.py) provides
    ID, LEVEL, RULE, ASSUMPTIONS (list), DESIGN_REF (optional)
    run_shard(ctx)          executes generated cases, uses ctx.stats / ctx.violation
    replay(case) -> None | Violation     re-evaluates one concrete case without Hypothesis
"""
import collections
import contextlib
import hashlib
import json
import os
import resource
import signal
import sys
import time
import traceback

HERE = os.path.dirname(os.path.dirname(os.path.abspath(__file__)))
OUT = os.environ.get('VERIF_OUT') or HERE      # evidence/ and replays/ go here (scratch dir for sensitivity runs)
NSHARDS_DEFAULT = 16
MAX_SAMPLES = 8


class Violation(Exception):
    """The property is violated by `case` (JSON-serialisable)."""

    def __init__(self, kind, case, detail=None):
        super().__init__(kind)
        self.kind = kind
        self.case = case
        self.detail = detail

    def as_dict(self):
        return {'kind': self.kind, 'case': self.case, 'detail': self.detail}


class CaseTimeout(BaseException):
    pass


class StopShrink(BaseException):
    pass


def _alarm(signum, frame):
    raise CaseTimeout()


@contextlib.contextmanager
def watchdog(seconds=20):
    # repeating timer: the code under test has bare "except:" clauses that
    # can swallow a single CaseTimeout
    old = signal.signal(signal.SIGALRM, _alarm)
    signal.setitimer(signal.ITIMER_REAL, seconds, 0.5)
    try:
        yield
    finally:
        signal.setitimer(signal.ITIMER_REAL, 0)
        signal.signal(signal.SIGALRM, old)


def h64(obj):
    if not isinstance(obj, (str, bytes)):
        obj = json.dumps(obj, sort_keys=True, ensure_ascii=False, default=repr)
    if isinstance(obj, str):
        obj = obj.encode('utf-8', 'surrogatepass')
    return int.from_bytes(hashlib.blake2b(obj, digest_size=8).digest(), 'big')


class Stats:
    def __init__(self):
        self.evaluations = 0
        self.nontrivial = set()
        self.classes = collections.Counter()
        self.excluded = collections.Counter()
        self.samples = []
        self.extra = {}

    def case(self, key=None, nontrivial=False, classes=(), sample=None, n=1):
        """record one executed case; key identifies it for distinctness"""
        self.evaluations += n
        for c in classes:
            self.classes[c] += 1
        if nontrivial:
            k = h64(key)
            if k not in self.nontrivial:
                self.nontrivial.add(k)
                # keep the first non-trivial case and then a thin, deterministic selection
                if sample is not None and len(self.samples) < MAX_SAMPLES and \
                        (not self.samples or len(self.nontrivial) % 97 == 0):
                    self.samples.append(sample)

    def dump(self):
        return {'evaluations': self.evaluations,
                'nontrivial': sorted(self.nontrivial),
                'classes': dict(self.classes), 'excluded': dict(self.excluded),
                'samples': self.samples, 'extra': self.extra}


class Ctx:
    def __init__(self, prop, tier, seed, shard, nshards):
        self.prop = prop
        self.tier = tier
        self.seed = seed
        self.shard = shard
        self.nshards = nshards
        self.shard_seed = seed * 1000 + shard
        self.stats = Stats()
        self.violations = []
        self.errors = []
        self._kinds = set()

    def n(self, quick, thorough):
        """per-shard share of a total case budget"""
        total = quick if self.tier == 'quick' else thorough
        base, rem = divmod(total, self.nshards)
        return base + (1 if self.shard < rem else 0)

    def violation(self, v):
        if v.kind not in self._kinds and len(self.violations) < 6:
            self._kinds.add(v.kind)
            self.violations.append(v.as_dict())

    def error(self, msg):
        if len(self.errors) < 5:
            self.errors.append(msg)

    def too_many(self):
        return len(self.violations) >= 3 or any(v['kind'] == 'hang' for v in self.violations)


def sut_frame(exc):
    """(type name, innermost yalafi frame) bucket key of an exception"""
    tb = traceback.extract_tb(exc.__traceback__)
    fr = [f for f in tb if os.sep + 'yalafi' + os.sep in f.filename]
    if fr:
        f = fr[-1]
        return '%s@%s:%s' % (type(exc).__name__, os.path.basename(f.filename), f.name)
    return type(exc).__name__


# ------------------------------------------------------------- Hypothesis glue

def hyp_run(ctx, strategy, check, n_examples, seed=None, shrink_seconds=45,
            label=''):
    """Drive `check(value)` with Hypothesis.  check raises Violation.
    Returns after n_examples or the first (shrunk) violation, which is
    recorded in ctx."""
    import hypothesis
    from hypothesis import HealthCheck, Phase, given, settings
    if n_examples <= 0:
        return
    state = {'v': None, 't0': None}

    @settings(max_examples=n_examples, deadline=None, database=None,
              derandomize=False, report_multiple_bugs=False,
              suppress_health_check=list(HealthCheck), print_blob=False,
              phases=[Phase.generate, Phase.shrink])
    @hypothesis.seed(ctx.shard_seed if seed is None else seed)
    @given(strategy)
    def test(x):
        if state['t0'] is not None and time.time() - state['t0'] > shrink_seconds:
            raise StopShrink()
        try:
            check(x)
        except Violation as v:
            state['v'] = v
            if state['t0'] is None:
                state['t0'] = time.time()
            raise

    try:
        test()
    except Violation:
        pass
    except StopShrink:
        pass
    except hypothesis.errors.Flaky as e:
        if state['v'] is None:
            ctx.error('flaky under hypothesis: %r' % (e,))
    except hypothesis.errors.Unsatisfiable as e:
        ctx.error('generator unsatisfiable %s: %r' % (label, e))
    if state['v'] is not None:
        ctx.violation(state['v'])


# ------------------------------------------------------------------ known findings

def load_known(prop):
    p = os.path.join(HERE, 'known_findings.json')
    if not os.path.exists(p):
        return []
    with open(p, encoding='utf-8') as f:
        data = json.load(f)
    return [e for e in data.get('findings', []) if e['property'] == prop]


# ------------------------------------------------------------------ shard worker

def _shard_entry(args):
    modname, tier, seed, shard, nshards = args
    resource.setrlimit(resource.RLIMIT_AS, (6 << 30, 6 << 30))
    sys.setrecursionlimit(3000)
    ctx = Ctx(modname, tier, seed, shard, nshards)
    t0 = time.time()
    try:
        import importlib
        mod = importlib.import_module('props.' + modname)
        mod.run_shard(ctx)
    except Violation as v:
        ctx.violation(v)
    except CaseTimeout:
        ctx.error('watchdog: case exceeded time limit\n' + traceback.format_exc())
    except MemoryError:
        ctx.error('memory limit hit in shard %d' % shard)
    except BaseException as e:      # harness bug: never a property verdict
        ctx.error('harness exception in shard %d: %s' % (shard, traceback.format_exc()))
    finally:
        try:
            from vlib import sut
            sut.cleanup_now()
        except Exception:
            pass
    d = ctx.stats.dump()
    d['violations'] = ctx.violations
    d['errors'] = ctx.errors
    d['wall'] = time.time() - t0
    return d


def find_module(prop):
    import importlib
    pdir = os.path.join(HERE, 'props')
    for f in sorted(os.listdir(pdir)):
        if f.lower().startswith(prop.lower() + '_') and f.endswith('.py'):
            m = importlib.import_module('props.' + f[:-3])
            if getattr(m, 'ID', None) == prop.upper() and hasattr(m, 'run_shard'):
                return f[:-3]
    raise SystemExit('no module for property ' + prop)


def write_replay(prop, vd):
    d = os.path.join(OUT, 'replays')
    os.makedirs(d, exist_ok=True)
    slug = ''.join(c if c.isalnum() else '-' for c in vd['kind'])[:40]
    name = '%s-%s-%016x.json' % (prop, slug, h64(vd['case']))
    path = os.path.join(d, name)
    with open(path, 'w', encoding='utf-8') as f:
        json.dump({'property': prop, **vd}, f, ensure_ascii=False, indent=1,
                  default=repr)
    return path


def run(prop, tier, seed, nshards, replay=None):
    import importlib
    import multiprocessing
    t0 = time.time()
    modname = find_module(prop)
    mod = importlib.import_module('props.' + modname)
    prop = mod.ID

    if replay:
        with open(replay, encoding='utf-8') as f:
            data = json.load(f)
        case = data['case'] if 'case' in data and 'kind' in data else data
        try:
            with watchdog(300):
                v = mod.replay(case)
        except CaseTimeout:
            v = Violation('hang', case, 'no result within 300 s')
        if v is None:
            print('replay: property %s holds on this case' % prop)
            return 0
        print('replay: %s: %s' % (v.kind, json.dumps(v.detail, ensure_ascii=False, default=repr)[:2000]))
        print('VIOLATION property=%s replay=%s' % (prop, replay))
        return 1

    exit_code = 0
    nviol = 0
    # 1. known findings and regression cases of fixed defects
    known_lines = []
    for e in load_known(prop):
        try:
            with watchdog(300):
                v = mod.replay(e['case'])
        except CaseTimeout:
            v = Violation('hang', e['case'], 'no result within 300 s')
        if e['status'] == 'known':
            if v is not None:
                known_lines.append('KNOWN-FINDING: property=%s %s: %s'
                                   % (prop, e['id'], e['what']))
        else:       # fixed: plain regression case, suppresses nothing
            if v is not None:
                path = write_replay(prop, v.as_dict())
                print('VIOLATION property=%s replay=%s' % (prop, path))
                print('  regression of fixed finding %s (%s): %s' % (e['id'], e.get('commit'), v.kind))
                nviol += 1
                exit_code = 1
    for l in known_lines:
        print(l)

    # 2. generated search
    args = [(modname, tier, seed, s, nshards) for s in range(nshards)]
    if nshards == 1:
        results = [_shard_entry(args[0])]
    else:
        mpctx = multiprocessing.get_context('fork')
        with mpctx.Pool(min(nshards, os.cpu_count() or 1)) as pool:
            if os.environ.get('VERIF_FIRST'):
                # sensitivity runs only (tools/mut.py): stop all shards as soon as one reports a violation
                results = []
                for r in pool.imap_unordered(_shard_entry, args, chunksize=1):
                    results.append(r)
                    if r['violations']:
                        pool.terminate()
                        break
            else:
                results = pool.map(_shard_entry, args, chunksize=1)

    ev = 0
    nontriv = set()
    classes = collections.Counter()
    excluded = collections.Counter()
    samples = []
    extra = {}
    errors = []
    seen_kinds = set()
    for r in results:
        ev += r['evaluations']
        nontriv.update(r['nontrivial'])
        classes.update(r['classes'])
        excluded.update(r['excluded'])
        for s in r['samples']:
            if len(samples) < MAX_SAMPLES:
                samples.append(s)
        for k, v in r['extra'].items():
            if isinstance(v, (int, float)):
                extra[k] = extra.get(k, 0) + v
            else:
                extra.setdefault(k, v)
        errors += r['errors']
        for vd in r['violations']:
            if vd['kind'] in seen_kinds:
                continue
            seen_kinds.add(vd['kind'])
            path = write_replay(prop, vd)
            print('VIOLATION property=%s replay=%s' % (prop, path))
            print('  kind: %s' % vd['kind'])
            print('  detail: %s' % json.dumps(vd['detail'], ensure_ascii=False, default=repr)[:1500])
            nviol += 1
            exit_code = 1

    if errors and exit_code == 0:
        exit_code = 2
    for e in errors[:5]:
        print('HARNESS-ERROR: ' + e, file=sys.stderr)

    if hasattr(mod, 'finish'):
        # optional post-processing of merged counters (required classes etc.)
        msg = mod.finish(tier, dict(classes), ev, len(nontriv))
        if msg and exit_code == 0:
            print('HARNESS-ERROR: ' + msg, file=sys.stderr)
            exit_code = 2

    coverage = {
        'evaluations': ev,
        'distinct_nontrivial': len(nontriv),
        'rule': mod.RULE,
        'samples': samples,
        'classes': dict(sorted(classes.items())),
        'excluded': dict(sorted(excluded.items())),
        'shards': nshards,
        'known_findings_reported': [l.split(' ', 2)[2] for l in known_lines],
    }
    coverage.update(extra)
    if getattr(mod, 'EXHAUSTIVE', None):
        coverage['exhaustive'] = bool(mod.EXHAUSTIVE.get(tier, False)) if isinstance(mod.EXHAUSTIVE, dict) else True
    evidence = {
        'property_id': prop, 'tier': tier, 'seed': seed, 'level': mod.LEVEL,
        'coverage': coverage,
        'assumptions': list(getattr(mod, 'ASSUMPTIONS', [])),
        'wall_s': round(time.time() - t0, 2),
        'violations': nviol,
    }
    if errors:
        evidence['coverage']['harness_errors'] = errors[:5]
    os.makedirs(os.path.join(OUT, 'evidence'), exist_ok=True)
    with open(os.path.join(OUT, 'evidence', prop + '.json'), 'w', encoding='utf-8') as f:
        json.dump(evidence, f, ensure_ascii=False, indent=1, default=repr)
    print('%s tier=%s seed=%d: %d cases, %d distinct non-trivial, %d violation(s), %.1f s'
          % (prop, tier, seed, ev, len(nontriv), nviol, time.time() - t0))
    return exit_code
