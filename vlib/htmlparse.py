"""Parse a yalafi.shell HTML report into tables of rows (independent of genhtml.py)."""
from html.parser import HTMLParser


class Report(HTMLParser):
    def __init__(self):
        super().__init__(convert_charrefs=True)
        self.tags = []              # (tag, attrs) of every start tag
        self.tables = []            # each: {'overlap': bool, 'rows': [(number text, [(text, title or None)])]}
        self.h3 = []
        self._in_h3 = False
        self._h3txt = ''
        self._table = None
        self._row = None
        self._cell = -1
        self._span = None
        self._last_h3 = ''
        self.errors = []
        self._open_spans = 0
        self._in_td = False

    def handle_starttag(self, tag, attrs):
        self.tags.append((tag, attrs))
        if tag == 'h3':
            self._in_h3 = True
            self._h3txt = ''
        elif tag == 'table':
            self._table = {'overlap': 'overlapping message(s)' in self._last_h3 and 'see here' not in self._last_h3, 'rows': []}
            self.tables.append(self._table)
        elif tag == 'tr':
            self._row = ['', []]
            self._cell = -1
        elif tag == 'td':
            self._cell += 1
            self._in_td = True
        elif tag == 'span':
            if self._span is not None:
                self.errors.append('nested span')
            self._span = dict(attrs).get('title')
            self._span_attrs = attrs
            if self._row is not None and self._cell == 1:
                self._row[1].append(('', self._span if self._span is not None else ''))
        elif tag == 'br':
            if self._span is not None:
                self.errors.append('line break inside span')

    def handle_endtag(self, tag):
        if tag == 'h3':
            self._in_h3 = False
            self.h3.append(self._h3txt)
            self._last_h3 = self._h3txt
        elif tag == 'table':
            self._table = None
        elif tag == 'td':
            self._in_td = False
        elif tag == 'tr':
            if self._table is not None and self._row is not None:
                self._table['rows'].append((self._row[0], self._row[1]))
            self._row = None
        elif tag == 'span':
            self._span = None

    def handle_data(self, data):
        if self._in_h3:
            self._h3txt += data
        if self._row is not None and self._in_td:
            if self._cell == 0:
                self._row[0] += data
            elif self._cell == 1:
                if self._span is not None:
                    t, title = self._row[1][-1]
                    self._row[1][-1] = (t + data, title)
                else:
                    self._row[1].append((data, None))


def parse(html):
    r = Report()
    r.feed(html)
    r.close()
    return r


def norm(s):
    """undo the presentation-only substitutions: en-space for blank, 8 blanks for tab"""
    return s.replace('\u2002', ' ')


def norm_src(s):
    return s.replace('\t', ' ' * 8)
