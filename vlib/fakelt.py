#!/usr/bin/env python3
"""Fake proofreader for the yalafi.shell checks.

usage (as built by the shell):  fakelt.py <plan.json> --json --encoding utf-8 --language XX [...] -
The plan file decides the answer:
  {"mode": "flag_words", "words": [...]}   flag every occurrence of these words in the text read from stdin
  {"mode": "matches", "matches": [...]}    answer with exactly these match objects
  {"mode": "raw", "file": path}            answer with the bytes of that file
  optional "log": path                     append one JSON line {argv, text} per invocation
Only the standard library is used; start-up must be cheap.
"""
import json
import sys


def context(text, off, length, size=40):
    beg = max(off - size, 0)
    end = min(off + length + size, len(text))
    s = text[beg:end].replace('\n', ' ').replace('\t', ' ')
    pre = '...' if beg > 0 else ''
    return {'text': pre + s + ('...' if end < len(text) else ''), 'offset': off - beg + len(pre), 'length': length}


def make_match(text, off, length, k):
    word = text[off:off + length]
    return {
        'message': 'Möglicher Tippfehler gefunden: “%s” <&> (Nr. %d)' % (word, k),
        'shortMessage': 'Tippfehler',
        'replacements': [{'value': word.upper()}, {'value': word + '-é'}],
        'offset': off, 'length': length,
        'context': context(text, off, length),
        'sentence': text[max(0, off - 20):off + length + 20],
        'type': {'typeName': 'Other'},
        'rule': {'id': 'FAKE_RULE_%d' % (k % 3), 'subId': '1', 'description': 'fake rule', 'issueType': 'misspelling',
                 'urls': [{'value': 'https://example.org/rule?a=1&b=2'}],
                 'category': {'id': 'TYPOS', 'name': 'Mögliche Tippfehler'}},
        'ignoreForIncompleteSentence': False, 'contextForSureMatch': 0,
    }


def main():
    plan = json.load(open(sys.argv[1], encoding='utf-8'))
    data = sys.stdin.buffer.read()
    text = data.decode('utf-8', 'replace')
    if plan.get('log'):
        with open(plan['log'], 'a', encoding='utf-8') as f:
            f.write(json.dumps({'argv': sys.argv[2:], 'text': text}, ensure_ascii=False) + '\n')
    mode = plan.get('mode')
    out = sys.stdout.buffer
    if mode == 'raw':
        out.write(open(plan['file'], 'rb').read())
        return
    if mode == 'matches':
        matches = plan['matches']
    else:
        matches = []
        k = 0
        for w in plan.get('words', []):
            i = text.find(w)
            while i >= 0:
                k += 1
                matches.append(make_match(text, i, len(w), k))
                i = text.find(w, i + 1)
        if plan.get('shuffle'):
            matches.reverse()
    res = {'software': {'name': 'FakeLT', 'version': '0', 'apiVersion': 1},
           'language': {'name': 'x', 'code': 'x'}, 'matches': matches}
    out.write(json.dumps(res, ensure_ascii=False).encode('utf-8'))


if __name__ == '__main__':
    main()
