"""Common driver of the document-based properties (C02-C05, C08 negative half)."""
from vlib import docgen, refcheck, sut
from vlib.runner import Violation, hyp_run, sut_frame, watchdog

RULE_PREFIX = ('Hypothesis draws a document tree (st.recursive, up to ~14 leaves per level, depth <= 4) over the construct catalogue: unique words (ASCII and non-ASCII), vanishing macros, '
               'pass-through macros, generating macros (references, citations, symbols, user macros with and without parameters, glossary entries), headings, footnotes/captions, '
               'unknown / paragraph-forming / float / removed environments, lists with and without labels, tables, theorems, proofs, \\verb, verbatim, inline maths, accents, special sequences, '
               '\\par, LT-SKIP regions, in a random layout (blanks, line breaks, indentation, comments, blank lines, delimiters on their own lines); ')
ASSUMPTIONS = [
    'documents are well-formed LaTeX over the catalogue of docgen.py; run with pack=*, lang=en, glossary database supplied through the definitions option',
    'recorded genuine defects are excluded by construction and counted (evidence key "excluded"); see known_findings.json',
    'blanks directly after control words, after constructs still looking for a trailing optional argument and inside maths do not count as separators',
]
FLAGS = {'F1_fixed': True, 'F2_fixed': True, 'F3_fixed': True, 'F4_fixed': True}      # switches F*_fixed are turned on here when a recorded defect has been repaired in /repo
OPTS = dict(pack='*', lang='en', defs=docgen.DEFS)
# the same catalogue without biblatex: \cite is then the built-in macro
PACK_NO_BIBLATEX = 'amsmath,amsthm,babel,circuitikz,geometry,glossaries,glossaries-extra,graphicx,hyperref,inputenc,listings,mathtools,pgfplots,tikz,unicode-math,xcolor,xspace'


def run_source(src, **extra):
    import os
    d = sut.scratch_dir()
    if os.getcwd() != d:
        os.chdir(d)
    f = os.path.join(d, docgen.SED_NAME)
    if not os.path.exists(f):
        with open(f, 'w', encoding='utf-8') as fh:
            fh.write(docgen.SED)
        for name, data in (('zz-lang.tex', b'% ' + b'x' * 3000 + b'\n\\selectlanguage{german}\n'), ('zz-empty.tex', b''), ('zz-foot.tex', b'% ' + b'x' * 500 + b'\nText in the file \\footnote{Foot text in the file} \\marginpar{Margin text}\n\\newcommand{\\zzfoot}{FOOT}\n'), ('zz-comment.tex', b'% only a comment\n'), ('zz-nested.tex', b'\\LTinput{zz-comment.tex}\n'), ('zz-pack.tex', b'\\usepackage{xcolor}\n\\usepackage{amsthm}\n'), ('zz-latin1.tex', b'\\newcommand{\\zzl}{gr\xf6\xdfer}\n')):
            with open(os.path.join(d, name), 'wb') as fh:
                fh.write(data)
    with watchdog(20):
        (plain, pos), err = sut.tex2txt(src, **dict(OPTS, **extra))
    return plain, list(pos), err


def make(pid, judge, nontrivial, classes, quick, thorough, strategy=None, flags=None):
    fl = dict(FLAGS)
    fl.update(flags or {})

    def check_model(m, stats=None):
        src = m.source()
        case = {'src': src}
        try:
            plain, pos, err = run_source(src, **({'pack': PACK_NO_BIBLATEX} if m.flags.get('no_biblatex') else {}))
        except Exception as e:
            raise Violation('exception:' + sut_frame(e), case, repr(e))
        v = refcheck.evaluate(m, plain, pos, err)
        r = judge(m, v, case)
        if r is not None:
            kind, detail = r
            raise Violation(kind, {'src': src, 'doc': None}, {'plain': plain, 'problem': detail})
        return v

    def run_shard(ctx):
        def check(doc):
            # every fourth document runs without biblatex (built-in \cite)
            nb = len(repr(doc)) % 4 == 0
            m = docgen.build(doc, dict(fl, no_biblatex=True) if nb else fl)
            try:
                v = check_model(m)
            except Violation as e:
                e.case['doc'] = doc
                raise
            for k, n in m.excluded.items():
                ctx.stats.excluded[k] += n
            nt = nontrivial(m, v)
            ctx.stats.case(key=m.source(), nontrivial=nt, classes=classes(m, v) + (['aligned'] if v.aligned else []),
                           sample={'src': m.source()[len(docgen.PREAMBLE):]})
            for k, n in v.counts.items():
                ctx.stats.extra[k] = ctx.stats.extra.get(k, 0) + n
        hyp_run(ctx, strategy or docgen.document, check, ctx.n(quick, thorough))

    def replay(case):
        if case.get('doc') is None:
            return Violation('replay-needs-doc', case, 'replay file without document tree')
        d = untuple(case['doc'])
        nb = len(repr(d)) % 4 == 0
        m = docgen.build(d, dict(fl, no_biblatex=True) if nb else fl)
        try:
            check_model(m)
        except Violation as v:
            return v
        return None

    return run_shard, replay


def untuple(x):
    """JSON round trip turns tuples into lists; the renderer only indexes, so lists work,
    except for items used as dictionary keys / string membership tests"""
    if isinstance(x, list):
        return tuple(untuple(y) for y in x)
    return x
