import argparse
import os
import sys

HERE = os.path.dirname(os.path.dirname(os.path.abspath(__file__)))
sys.path.insert(0, HERE)


def main():
    ap = argparse.ArgumentParser()
    ap.add_argument('prop')
    ap.add_argument('--tier', default=os.environ.get('VERIF_TIER') or 'quick',
                    choices=['quick', 'thorough'])
    ap.add_argument('--seed', type=int, default=None)
    ap.add_argument('--shards', type=int, default=None)
    ap.add_argument('--replay')
    a = ap.parse_args()
    seed = a.seed
    if seed is None:
        try:
            seed = int(os.environ.get('VERIF_SEED', '1'))
        except ValueError:
            seed = 1
    from vlib import runner
    try:
        from vlib import sut       # noqa: F401  (fails early if the tree is wrong)
    except Exception as e:
        print('HARNESS-ERROR: cannot import yalafi from the repository: %r' % (e,), file=sys.stderr)
        return 2
    shards = a.shards or int(os.environ.get('VERIF_SHARDS', runner.NSHARDS_DEFAULT))
    return runner.run(a.prop, a.tier, seed, shards, a.replay)


if __name__ == '__main__':
    try:
        rc = main()
    except SystemExit:
        raise
    except BaseException:
        import traceback
        traceback.print_exc()
        rc = 2
    sys.stdout.flush()
    sys.exit(rc)
