"""Coverage-guided fuzzing of the filter (C07, thorough tier) with atheris / libFuzzer.
Run under python3-vt:  PYTHONPATH=<repo>:<verif> python3-vt atheris_c07.py <findings.jsonl> -runs=N -seed=S <corpus dir>
The fuzzer input is decoded into vocabulary indices (2 bytes per token) and an option byte, so that
mutations stay on the token level; the oracle is 'returns normally' (see props/c07_total.py)."""
import io
import json
import os
import sys

import atheris

FINDINGS = sys.argv[1]
sys.argv = [sys.argv[0]] + sys.argv[2:]

with atheris.instrument_imports(include=['yalafi']):
    from vlib import soup, sut        # imports yalafi from VERIF_REPO

VOC = soup.vocabulary()
OPTS = [dict(lang='en', pack='*'), dict(lang='de', pack='*,cleveref'), dict(lang='ru', pack=None), dict(lang='en', pack='*', dcls='scrartcl'),
        dict(lang='en', pack='*', seqs=True), dict(lang='de', pack='*', nosp=True), dict(lang='en', pack='*', extr='footnote,section,LaTeX'),
        dict(lang='en', pack='*', defs='\\newcommand{\\zz}[2][o]{#1#2}')]
DOCUMENTED = ("no environment for '$$'", 'is not an EquEnv')


def decode(data):
    if not data:
        return '', OPTS[0], False
    o = data[0]
    toks = [VOC[(data[i] * 256 + data[i + 1]) % len(VOC)] for i in range(1, len(data) - 1, 2)]
    return ''.join(toks[:24]), OPTS[o % len(OPTS)], bool(o & 0x80)


def one(data):
    src, kw, ml = decode(data)
    err = io.StringIO()
    old = sys.stderr
    sys.stderr = err
    try:
        sut._t2t.tex2txt(src, sut.Options(**kw), multi_language=ml)
    except SystemExit:
        sys.stderr = old
        if not any(d in err.getvalue() for d in DOCUMENTED):
            report(src, kw, ml, 'SystemExit')
    except RecursionError:
        sys.stderr = old
    except Exception as e:
        sys.stderr = old
        report(src, kw, ml, type(e).__name__)
    finally:
        sys.stderr = old


def report(src, kw, ml, what):
    with open(FINDINGS, 'a', encoding='utf-8') as f:
        f.write(json.dumps({'src': src, 'opts': kw, 'ml': ml, 'what': what}, ensure_ascii=False) + '\n')
    raise RuntimeError('finding: ' + what)


if __name__ == '__main__':
    atheris.Setup(sys.argv, one)
    atheris.Fuzz()
