"""Annotated document generator (DESIGN.md 3.1) and reference predictions (3.2).

A document is a tree drawn from Hypothesis strategies; `build(doc)` renders it
to LaTeX source and, while doing so, records for every piece of output text
what YaLafi must produce for it (atoms), which words must never appear
(hidden) and which detached flows (footnotes, captions) exist.

The predictions are derived from the documentation (README, list-of-macros.md)
and the property statements, never from YaLafi code.
"""
import re

from hypothesis import strategies as st

# ------------------------------------------------------------------ layout
SP = [' ', '\n', '  ', '\n  ', ' \n', ' %HID\n', ' %HID\n   ', '\t', ' ', '\n', '\n%HID\n', ' \n %HID\n  ',
      # commented-out skip markers are ordinary comments (seeded change C03-H)
      ' % %%% LT-SKIP-BEGIN HID\n', '\n% %%% LT-SKIP-END HID\n', ' %x %%% LT-SKIP-BEGIN HID\n']
GLUE = ['%HID\n', '%HID\n  ', '']
PARA = ['\n\n', '\n  \n', '\n\n\n', ' \n\n  ', '\n%HID\n\n', '\n\n%HID\n',
        # a comment followed by a line that is blank but not empty (seeded change C05-A)
        ' %HID\n  \n', '\n%HID\n\t\n', '\n  %HID\n \n  ']
INNER = ['', '', '', ' ', '\n', '\n  ']

sep_space = st.sampled_from(SP)
sep_para = st.sampled_from(PARA)
sep_glue = st.sampled_from(GLUE)
sep_any = st.one_of(sep_space, sep_space, sep_space, sep_space, sep_para, sep_glue)
sep_nopara = st.one_of(sep_space, sep_space, sep_space, sep_glue)
inner = st.sampled_from(INNER)

VANISH = [r'\label{KEY}', r'\index{KEY}', r'\vphantom{KEY}', r'\pagestyle{KEY}',
          r'\includegraphics[width=KEY]{KEY}', r'\includegraphics{KEY}',
          r'\input{KEY}', r'\color{KEY}', r'\bibliographystyle{KEY}',
          r'\LTskip{KEY}', r'\zzunk', r'\zzother{}', r'\thispagestyle{KEY}',
          r'\definecolor{KEY}{rgb}{KEY}', r'\usetikzlibrary{KEY}', r'\qedhere',
          r'\notag', r'\include{KEY}', r'\pagenumbering{KEY}', r'\addbibresource{KEY}',
          r'\geometry{KEY=KEY}', r'\lstset{KEY=KEY}', r'\hspace{0pt}', r'\footnotemark[KEY]',
          r'\DeclareMathOperator{\KEY}{KEY}', r'\crefname{KEY}{KEY}{KEY}', r'\Crefname{KEY}{KEY}{KEY}', r'\ctikzset{KEY}', r'\tikzset{KEY}',
          r'\pgfplotsset{KEY}', r'\mathtoolsset{KEY}', r'\unimathsetup{KEY}', r'\inputencoding{KEY}', r'\theoremstyle{KEY}',
          r'\numberwithin{KEY}{KEY}', r'\setmathfont{KEY}[KEY]', r'\printbibliography[KEY]', r'\negthinspace', r'\negmedspace',
          r'\negthickspace', r'\phantom{}', r'\hphantom{}', r'\selectlanguage{german}', r'\newtheoremstyle{KEY}{KEY}{KEY}{KEY}{KEY}{KEY}{KEY}{KEY}{KEY}']
BLANKGEN = [r'\hfill', r'\newline', r'\qquad', r'\quad', r'\medspace', r'\thickspace', r'\thinspace', r'\vspace{KEY}', r'\phantom{KEY}',
            r'\hphantom{KEY}', r'\hspace{1cm}', r'\hspace*{KEY}', r'\vspace*{KEY}']
GEN = [(r'\ref{KEY}', '0'), (r'\pageref{KEY}', '0'), (r'\eqref{KEY}', '(0)'),
       (r'\cite{KEY}', '[0]'), (r'\LaTeX', 'LaTeX'), (r'\TeX', 'TeX'),
       (r'\ss', 'ß'), (r'\S', '§'), (r'\o', 'ø'), (r'\AE', 'Æ'), (r'\L', 'Ł'), (r'\aa', 'å'),
       (r'\textbackslash', '\\'), (r'\textasciitilde', '~'), (r'\textasciicircum', '^'),
       (r'\parencite{KEY}', '[0]'), (r'\Parencite{KEY}', '[0]'), (r'\AA', 'Å'), (r'\O', 'Ø'), (r'\OE', 'Œ'), (r'\ae', 'æ'), (r'\l', 'ł'), (r'\oe', 'œ'),
       (r'\Glspl{zzgl}', 'Glsplurals'), (r'\GLSpl{zzgl}', 'GLSPLURALS'), (r'\Glsdesc{zzgl}', 'Descr words'), (r'\GLSdesc{zzgl}', 'DESCR WORDS'),
       (r'\glstext{zzgm}', 'secondtext'), (r'\Glstext{zzgl}', 'Glstext one'), (r'\GLStext{zzgm}', 'SECONDTEXT'), (r'\Cite[KEY][]{KEY}', '[KEY 0]'), (r'\LaTeX{}', 'LaTeX'),
       (r'\zzvb', 'Bodyverb Verbtwo'), (r'\zzbody', 'Bodyone Bodytwo'), (r'\zzhd', 'About LaTeX.'), (r'\gls{zzgn}', 'LaTeX editor, too now'), (r'\GLS{zzgn}', 'LaTeX EDITOR, TOO NOW'), (r'\zzopt{KEY}', 'Defword'),
       (r'\gls{zzgl}', 'glstext one'), (r'\Gls{zzgl}', 'Glstext one'), (r'\GLS{zzgl}', 'GLSTEXT ONE'),
       (r'\cref{zzeq}', 'eq. (0)'), (r'\Cref{zzeq}', 'Equation (0)'), (r'\cref{zzsec}', 'section 0'),
       (r'\crefrange{zzeq}{zzer}', 'eqs. (0) to (0)'), (r'\cref{zzeq}', 'eq. (0)'), (r'\cref{zzlong}', 'see eq'),
       (r'\glspl{zzgl}', 'glsplurals'), (r'\glsdesc{zzgl}', 'descr words'), (r'\gls{zzgm}', 'secondtext')]
PASS = [(r'\textcolor{KEY}{', '}'), (r'\colorbox{KEY}{', '}'), (r'\href{KEY}{', '}'),
        (r'\LTadd{', '}'), (r'\LTalter{KEY}{', '}'), (r'\texorpdfstring{', '}{KEY}'),
        (r'\framebox[KEY]{', '}'), (r'\zzbf{', '}'), (r'\zzemph{', '}'), ('{', '}'),
        (r'\fcolorbox{KEY}{KEY}{', '}'), (r'\textcolor[rgb]{KEY}{', '}'),
        (r'\glsdisp{zzgl}{', '}'), (r'\glslink[KEY]{zzgl}{', '}'), (r'\zzone{', '}'), (r'\zztwo{KEY}{', '}'),
        (r'\zzunkb{', '}{}'), (r'\url{', '}'), (r'\foreignlanguage{german}{', '}'), (r'\foreignlanguage[KEY]{french}{', '}')]
SPECIAL = [('--', '–'), ('---', '—'), ('``', '“'), ("''", '”'),
           ('~', '\xa0'), ('\\,', '\u202f'), ('\\%', '%'), ('\\&', '&'), ('\\$', '$'),
           ('\\#', '#'), ('\\_', '_'), ('\\{', '{'), ('\\}', '}'),
           # brackets as text: a closing one anywhere, both inside a group (all optional arguments of the
           # renderer are written as [{..}], where a bracket must not end or nest the argument; seeded change C03-G)
           (']', ']'), ('{[}', '['), ('{]}', ']')]
HEAD = ['section', 'subsection', 'subsubsection', 'chapter', 'part', 'title']
FOOT = [r'\footnote{', r'\footnotetext{', r'\caption{', r'\footnote[KEY]{', r'\caption[KEY]{']
PARENV = [r'\begin{minipage}{KEY}', r'\begin{thebibliography}{KEY}']
FLOATENV = [(r'\begin{figure}[KEY]', 'figure', True), (r'\begin{table}[KEY]', 'table', True),
            (r'\begin{figure}', 'figure', False), (r'\begin{table}', 'table', False)]
RMENV = ['tikzpicture', 'lstlisting', 'circuitikz']
MSP = ['', '', '', ' ', '\\ ', '\\,', '~', '\\;', '\\quad ', '\\: ']
MBODY = ['x', 'a+b', '\\alpha_1^2', '\\frac{a}{b}', 'f(x)=y', 'x\\in A', '\\sum_{i=1}^n i',
         'a\\label{KEY}', '{a}', 'a<b', '\\zzm{x}{y}']
ACCENT = [("\\'e", 'é'), ('\\"a', 'ä'), ('\\"{o}', 'ö'), ('\\`{a}', 'à'), ('\\^o', 'ô'), ('\\c{c}', 'ç'),
          ('\\v s', 'š'), ('\\~n', 'ñ'), ('\\H{o}', 'ő'), ('\\.z', 'ż'), ('\\r{a}', 'å'), ('\\u g', 'ğ'),
          ('\\k{a}', 'ą'), ('\\=a', 'ā'), ('\\d{s}', 'ṣ'), ('\\b{d}', 'ḏ'), ("\\'{E}", 'É'), ('\\v{C}', 'Č')]
INLINE_PH = ['B-B-B', 'C-C-C', 'D-D-D', 'E-E-E', 'F-F-F', 'G-G-G']

PREAMBLE = ('\\newtheorem{zzthm}{Zzthm}\n'
            '\\newcommand{\\zzone}[1]{#1}\n'
            '\\newcommand{\\zztwo}[2]{#2}\n'
            '\\newcommand{\\zzbody}{Bodyone Bodytwo}\n'
            '\\newcommand{\\zzvb}{\\begin{verbatim}Bodyverb Verbtwo\\end{verbatim}}\n'
            '\\newcommand{\\zzopt}[2][Defword]{#1}\n'
            '\\newcommand{\\zzpair}[2]{#1 Bodymid #2}\n'
            '\\newcommand{\\zztwice}[1]{#1 Bodyand #1}\n'
            '\\newcommand{\\zzhd}{\\section{About \\LaTeX}}\n'
            '\\newcommand{\\zzcur}{}\n'
            '\\newcommand{\\zzstore}[1]{\\renewcommand{\\zzcur}{#1 Bodystored}#1}\n'
            '\\usepackage[poorman]{cleveref}\n'
            '\\YYCleverefInput{zz-verif.sed}\n')
SED_NAME = 'zz-verif.sed'
SED = (r's/\\cref{zzeq}/\\cref@equation@name \\nobreakspace \\textup {(\\ref {zzeq})}/g' '\n'
       r's/\\Cref{zzeq}/\\Cref@equation@name \\nobreakspace \\textup {(\\ref {zzeq})}/g' '\n'
       r's/\\cref{zzsec}/\\cref@section@name \\nobreakspace \\ref {zzsec}/g' '\n'
       r's/\\crefrange{zzeq}{zzer}/eqs\.\\nobreakspace \\textup {(\\ref {zzeq})} to\\nobreakspace \\textup {(\\ref {zzer})}/g' '\n'
       r's/\\cref{zzlong}/see                              eq/g' '\n'
       r's/\\cref@equation@name /eq\./g' '\n'
       r's/\\Cref@equation@name /Equation/g' '\n'
       r's/\\cref@section@name /section/g' '\n')
DEFS = ('\\gls@defglossaryentry{zzgl}{name={Glsname},text={glstext one},plural={glsplurals},description={descr\n                           words}}\n'
        '\\gls@defglossaryentry{zzgm}{name={Other},text={secondtext},plural={seconds},description={d}}\n'
        '\\gls@defglossaryentry{zzgn}{name={N},text=\\LaTeX{} \\textbf{editor, too} now,plural={\\TeX{} editors},description={d}}\n')
WORD_RE = re.compile(r'W[éäж]?[a-j]{3}[qé]')
CW_END = re.compile(r'\\[a-zA-Z@]+$')
ASCII_LETTERS = 'abcdefghijklmnopqrstuvwxyzABCDEFGHIJKLMNOPQRSTUVWXYZ'


def item(flow):
    np_flow = flow_nopara(flow)
    return st.one_of(
        st.just(('word',)), st.just(('word',)), st.just(('word',)), st.just(('word',)),
        st.tuples(st.just('vanish'), st.sampled_from(VANISH)),
        st.tuples(st.just('vanish'), st.sampled_from(VANISH)),
        st.tuples(st.just('gen'), st.sampled_from(GEN)),
        st.tuples(st.just('blankgen'), st.sampled_from(BLANKGEN)),
        st.tuples(st.just('cwglue'), st.sampled_from([(r'\ss', 'ß'), (r'\LaTeX', 'LaTeX'), (r'\o', 'ø'), (r'\TeX', 'TeX')]), st.sampled_from('äéжö')),
        st.just(('footcite',)),
        st.just(('lstinput',)),
        st.tuples(st.just('pass'), st.sampled_from(PASS), flow, inner, inner),
        st.tuples(st.just('pass'), st.sampled_from(PASS), flow, inner, inner),
        st.tuples(st.just('special'), st.sampled_from(SPECIAL)),
        # the whole argument of a known macro is one control word that yields text (seeded change C05-C)
        st.tuples(st.just('pass'), st.sampled_from(PASS),
                  st.sampled_from([(r'\LaTeX', 'LaTeX'), (r'\TeX', 'TeX'), (r'\ss', 'ß'), (r'\o', 'ø')]).map(lambda g: [(' ', ('gen', g))]),
                  st.just(''), st.just('')),
        st.tuples(st.just('head'), st.sampled_from(HEAD), st.booleans(), np_flow),
        st.tuples(st.just('foot'), st.sampled_from(FOOT), flow, inner, inner),
        st.tuples(st.just('cite'), np_flow),
        st.tuples(st.just('unkenv'), flow, inner),
        st.tuples(st.just('parenv'), st.sampled_from(PARENV), flow, inner),
        st.tuples(st.just('floatenv'), st.sampled_from(FLOATENV), flow, inner),
        st.tuples(st.just('rmenv'), st.sampled_from(RMENV), flow),
        st.tuples(st.just('langenv'), st.sampled_from(['otherlanguage*', 'otherlanguage']), flow, inner),
        st.tuples(st.just('list'), st.sampled_from(['itemize', 'enumerate']),
                  st.lists(st.tuples(sep_any, st.one_of(st.none(), np_flow), flow), min_size=1, max_size=3),
                  sep_any),
        st.tuples(st.just('verb'), st.sampled_from('|+!/'), st.text(alphabet='ab {}%$#\\~^_&-', min_size=1, max_size=6)),
        st.tuples(st.just('verbatim'), st.text(alphabet='ab {}%$#\\~^_&-\n', min_size=0, max_size=8)),
        st.tuples(st.just('imath'), st.sampled_from(['$', '\\(']), st.sampled_from(MSP), st.sampled_from(MBODY),
                  st.sampled_from(['', '', '.', ',', ';', ':']), st.sampled_from(MSP)),
        st.tuples(st.just('accent'), st.sampled_from(ACCENT)),
        st.tuples(st.just('par'),),
        st.tuples(st.just('skip'), flow),
        st.tuples(st.just('table'), st.lists(st.lists(np_flow, min_size=1, max_size=3), min_size=1, max_size=3)),
        st.tuples(st.just('thm'), st.one_of(st.none(), np_flow), flow),
        st.tuples(st.just('proof'), st.one_of(st.none(), np_flow), flow),
        st.tuples(st.just('pair'), np_flow, np_flow),
        st.tuples(st.just('twice'), np_flow),
        st.tuples(st.just('optgiven'), np_flow),
        st.tuples(st.just('store'), np_flow),
        st.just(('recall',)),
    )


def flow_nopara(flow):
    return flow.map(lambda f: [(s if s not in PARA else ' ', i) for s, i in f])


def mkflow(child):
    return st.lists(st.tuples(sep_any, item(child)), min_size=1, max_size=4)


leaf_flow = st.lists(st.tuples(sep_any, st.just(('word',))), min_size=1, max_size=3)
flow = st.recursive(leaf_flow, mkflow, max_leaves=14)
document = st.tuples(flow, st.sampled_from(['', ' ', '\n', '\n\n']))


# --------------------------------------------------------------------- model

class Model:
    def __init__(self, flags=None):
        self.src = []
        self.n = 0
        self.main = []
        self.stack = [self.main]
        self.hidden = []
        self.wcount = 0
        self.done = []              # completed detached flows: (atoms, lo, hi)
        self.in_head = 0
        self.no_detach = 0
        self.no_math = 0
        self.gls_used = set()
        self.stored = None
        self.in_store = 0
        self.no_store = 0
        self.tail = ''
        self.guards = 0
        self.no_skip = bool((flags or {}).get('no_skip'))
        self.listlevel = {}
        self.mathn = 0
        self.excluded = {}
        self.features = set()
        self.flags = flags or {}

    def emit(self, s):
        if not s:
            return
        if s.startswith(('\\begin{', '\\end{')) and not s.startswith(('\\end{verbatim}', '\\end{lstlisting}')) \
                and not self.flags.get('no_begin_blank'):
            # LaTeX (and the filter) accept white space between \begin / \end and the name:
            # a deterministic share of the environment delimiters is rendered that way (seeded change C02-H);
            # the end of verbatim material must be literal, as in LaTeX
            k = (self.n * 31 + self.wcount) % 18
            if k < 2:
                s = s.replace('{', ' {' if k == 0 else '\n  {', 1)
                self.features.add('blank-before-environment-name')
        tail = self.tail
        # keep tokenisation as rendered: never let two pieces fuse into another token
        if ((s[0] in ASCII_LETTERS or s[0] == '@') and CW_END.search(tail)) or \
                (s[0] in "-'`$" and tail.endswith(s[0])):
            self.src.append('{}')
            self.n += 2
            self.guards += 1
            tail = ''
        start = self.n
        self.src.append(s)
        self.n += len(s)
        self.tail = (tail + s)[-40:]
        return start

    def word(self):
        self.wcount += 1
        k = self.wcount
        core = ''.join('abcdefghij'[int(d)] for d in '%03d' % (k % 1000))
        pre = {3: 'é', 5: 'ä', 6: 'ж'}.get(k % 7, '')
        return 'W' + pre + core + ('é' if k % 7 == 2 else 'q')

    def cur(self):
        return self.stack[-1]

    def excl(self, what):
        self.excluded[what] = self.excluded.get(what, 0) + 1

    def source(self):
        return ''.join(self.src)


def fill(m, templ):
    parts = templ.split('KEY')
    for i, p in enumerate(parts):
        m.emit(p)
        if i < len(parts) - 1:
            w = m.word()
            m.hidden.append(w)
            m.emit(w)


def fill_text(m, templ):
    """like fill, but returns the text with KEY -> the emitted hidden word (for visible KEY use)"""
    return templ


def emit_sep(m, s, cur=True):
    if 'HID' in s:
        a, b = s.split('HID')
        m.emit(a)
        w = m.word()
        m.hidden.append(w)
        m.emit(w)
        m.emit(b)
        m.features.add('comment')
    else:
        m.emit(s)
    if s in PARA:
        kind, counts = 'P', True
    elif s in GLUE:
        kind, counts = 'S', False
    else:
        kind, counts = 'S', True
    if cur:
        m.cur().append(('sep', kind, counts))
    if '\n' in s:
        m.features.add('newline-sep')


def render_flow(m, fl, first_sep=True, braced=True):
    for idx, (s, it) in enumerate(fl):
        if idx > 0 or first_sep:
            emit_sep(m, s)
        render_item(m, it)


def render_item(m, it):
    k = it[0]
    if k == 'word':
        w = m.word()
        off = m.emit(w)
        m.cur().append(('w', w, off, 'word'))
    elif k == 'vanish' and m.flags.get('no_biblatex') and it[1].startswith(('\\printbibliography', '\\addbibresource')):
        render_item(m, ('word',))
    elif k == 'vanish':
        fill(m, it[1])
        m.cur().append(('v', it[1][-1].isalpha()))
        m.features.add('vanish')
    elif k == 'cwglue':
        # a control word ends at the first character that is no ASCII letter: \\ssänderung is \\ss + änderung
        lo = m.n
        m.emit(it[1][0])
        m.cur().append(('g', it[1][1], lo, m.n, False, 'wordlike'))
        w = it[2] + m.word()
        off = m.emit(w)
        m.cur().append(('w', w, off, 'word'))
        m.features.add('gen')
    elif k == 'blankgen':
        # macros that leave one generated blank (documented as such in list-of-macros / parameters)
        fill(m, it[1])
        m.cur().append(('sep', 'S', True))
        m.cur().append(('v', it[1][-1].isalpha() or it[1].startswith('\\bibitem')))
        m.features.add('blank-generating-macro')
    elif k == 'footcite' and (m.no_detach or m.in_head or m.flags.get('no_biblatex')):
        render_item(m, ('word',))
    elif k == 'footcite':
        lo = m.n
        fill(m, '\\footcite{KEY}')
        m.done.append(([('g', '[0].', lo, m.n, False)], lo, m.n))
        m.cur().append(('v', False))
        m.features.add('detached')
    elif k == 'lstinput':
        fill(m, '\\lstinputlisting[KEY]{KEY}')
        m.cur().append(('sep', 'P', True))
        m.cur().append(('v', False))
    elif k == 'gen' and m.flags.get('no_biblatex') and it[1][0].startswith(('\\parencite', '\\Parencite', '\\Cite')):
        render_item(m, ('word',))
    elif k == 'gen' and it[1][0] == '\\zzvb' and (m.flags.get('no_verbatim') or m.in_head):
        render_item(m, ('word',))
    elif k == 'gen':
        lo = m.n
        src, txt = it[1]
        if src.startswith(('\\gls', '\\Gls', '\\GLS')) and not m.flags.get('F4_fixed'):
            lab = src[src.index('{') + 1:src.index('}')]
            if lab in m.gls_used or m.no_detach:
                m.excl('F4: second use of the same glossary label -> word')
                return render_item(m, ('word',))
            m.gls_used.add(lab)
        if 'KEY' in txt:
            # visible key (biblatex prenote): the emitted word is copied text
            parts = src.split('KEY')
            m.emit(parts[0])
            w1 = m.word()
            off = m.n
            m.emit(w1)
            m.emit(parts[1])
            w2 = m.word()
            m.hidden.append(w2)
            m.emit(w2)
            m.emit(parts[2])
            m.cur().append(('g', '[', lo, m.n, False))
            m.cur().append(('w', w1, off, 'word'))
            m.cur().append(('sep', 'S', True))
            m.cur().append(('g', '0]', lo, m.n, False))
        else:
            fill(m, src)
            m.cur().append(('g', txt, lo, m.n, src[-1].isalpha(), 'wordlike'))
        m.features.add('gen')
        if src.startswith(('\\gls', '\\Gls', '\\GLS')):
            m.features.add('glossary')
        if src.startswith('\\zz'):
            m.features.add('usermacro')
    elif k == 'pass':
        pre, post = it[1]
        fill(m, pre)
        m.cur().append(('v', False))
        emit_sep(m, it[3])
        render_flow(m, it[2], first_sep=False)
        emit_sep(m, it[4])
        fill(m, post)
        m.cur().append(('v', False))
        m.features.add('pass')
        if it[3] == '\n' or it[4] in ('\n', '\n  '):
            m.features.add('own-line-brace')
    elif k == 'special' and it[1][0] in ('{[}', '{]}'):
        m.emit('{')
        off = m.emit(it[1][1])
        m.cur().append(('c', it[1][1], off, it[1][1]))
        m.emit('}')
        m.features.add('special')
    elif k == 'special':
        off = m.emit(it[1][0])
        m.cur().append(('c', it[1][1], off, it[1][0]))
        m.features.add('special')
    elif k == 'head':
        lo = m.n
        m.emit('\\' + it[1] + ('*' if it[2] else '') + '{')
        m.in_head += 1
        n0 = len(m.cur())
        render_flow(m, it[3], first_sep=False)
        m.in_head -= 1
        m.emit('}')
        vis = ''.join(a[1] for a in m.cur()[n0:] if a[0] in 'wgc').strip()
        if vis and vis[-1] not in '!?':
            m.cur().append(('g', '.', lo, m.n, False))
        m.features.add('heading')
    elif k == 'foot' and (m.no_detach or (m.in_head and not m.flags.get('F1_fixed'))):
        if m.in_head:
            m.excl('F1: detached flow inside heading -> pass-through')
        else:
            m.excl('detached flow inside duplicated argument -> pass-through')
        render_item(m, ('pass', ('\\zzbf{', '}'), it[2], it[3], it[4]))
    elif k == 'foot':
        lo = m.n
        fill(m, it[1])
        fl = []
        m.stack.append(fl)
        emit_sep(m, it[3])
        render_flow(m, it[2], first_sep=False)
        emit_sep(m, it[4])
        m.stack.pop()
        m.emit('}')
        m.done.append((fl, lo, m.n))
        m.cur().append(('v', False))
        m.features.add('detached')
    elif k == 'cite':
        lo = m.n
        m.emit('\\cite[{')
        g0 = ['g', '[0,', lo, None, False]
        m.cur().append(g0)
        m.cur().append(('sep', 'S', True))
        render_flow(m, it[1], first_sep=False)
        m.emit('}]{')
        w = m.word()
        m.hidden.append(w)
        m.emit(w)
        m.emit('}')
        g0[3] = m.n
        m.cur().append(('g', ']', lo, m.n, False))
        m.features.add('gen')
    elif k == 'unkenv':
        m.emit('\\begin{zzenv}')
        m.cur().append(('v', False))
        render_flow(m, it[1], first_sep=True)
        emit_sep(m, it[2])
        m.emit('\\end{zzenv}')
        m.cur().append(('v', False))
        m.features.add('unknown-env')
    elif k == 'parenv':
        fill(m, it[1])
        name = it[1][7:it[1].index('}')]
        m.cur().append(('sep', 'P', True))
        m.cur().append(('v', False))
        render_flow(m, it[2], first_sep=True)
        emit_sep(m, it[3])
        m.emit('\\end{' + name + '}')
        m.cur().append(('sep', 'P', True))
        m.cur().append(('v', False))
        m.features.add('par-env')
    elif k == 'floatenv':
        templ, name, has_opt = it[1]
        fill(m, templ)
        # an absent trailing optional argument keeps scanning: the next blank does not count
        m.cur().append(('v', not has_opt))
        render_flow(m, it[2], first_sep=True)
        emit_sep(m, it[3])
        m.emit('\\end{' + name + '}')
        m.cur().append(('v', False))
        m.features.add('float-env')
    elif k == 'langenv':
        name = it[1]
        m.emit('\\begin{%s}{german}' % name)
        m.cur().append(('v', False))
        render_flow(m, it[2], first_sep=True)
        emit_sep(m, it[3])
        m.emit('\\end{%s}' % name)
        # the unstarred environment swallows the blank behind its \\end (documented: like LaTeX)
        m.cur().append(('v', name == 'otherlanguage'))
        m.features.add('language-env')
        if it[3] in ('\n', '\n  '):
            m.features.add('own-line-brace')
    elif k == 'rmenv':
        m.emit('\\begin{' + it[1] + '}')
        sub = Model(m.flags)
        sub.wcount = m.wcount
        sub.no_math = 1
        sub.no_store = 1
        sub.in_store = m.in_store
        sub.no_skip = True
        sub.no_detach = 0 if m.flags.get('F2_fixed') else 1
        sub.gls_used = m.gls_used
        render_flow(sub, it[2], first_sep=True)
        m.wcount = sub.wcount
        if sub.no_detach:
            for kk, vv in sub.excluded.items():
                m.excluded[kk.replace('duplicated argument', 'removed environment (F2)')] = \
                    m.excluded.get(kk, 0) + vv
        txt = sub.source()
        m.hidden += WORD_RE.findall(txt)
        m.emit(txt)
        m.emit('\\end{' + it[1] + '}')
        if it[1] == 'lstlisting':
            m.cur().append(('sep', 'P', True))
        m.cur().append(('v', False))
        m.features.add('removed-env')
    elif k == 'list':
        env = it[1]
        m.emit('\\begin{' + env + '}')
        m.cur().append(('v', False))
        level = m.listlevel.get(env, 0)
        m.listlevel[env] = level + 1
        n = 0
        for s_, lab, fl in it[2]:
            emit_sep(m, s_)
            lo = m.n
            if lab is not None and m.no_detach:
                m.excl('item label inside duplicated argument (punctuation carry-over differs per copy) -> plain item')
                lab = None
            if lab is None:
                m.emit('\\item')
                n += 1
                if env == 'enumerate':
                    txt = (str(n) + '.') if level == 0 else ('abcdefghijklmnopqrstuvwxyz'[(n - 1) % 26] + '.')
                    m.cur().append(('sep', 'S', True))
                    m.cur().append(('g', txt, lo, m.n, True))
                    m.cur().append(('sep', 'S', True))
                else:
                    m.cur().append(('sep', 'S', True))
                    m.cur().append(('v', True))
            else:
                prev = ''.join(a[1] for a in m.cur() if a[0] in 'wgc').strip()
                m.emit('\\item[{')
                m.cur().append(('sep', 'S', True))
                m.cur().append(('glab',))
                render_flow(m, lab, first_sep=False)
                m.emit('}]')
                if prev and prev[-1] in '.:,;!?':
                    m.cur().append(('g', prev[-1], lo, m.n, False))
                m.cur().append(('sep', 'S', True))
                m.cur().append(('glab',))
            render_flow(m, fl, first_sep=True)
        emit_sep(m, it[3])
        m.emit('\\end{' + env + '}')
        m.cur().append(('v', False))
        m.listlevel[env] = level
        m.features.add('list')
    elif k == 'verb':
        txt = it[2].replace(it[1], 'a')
        if not m.flags.get('F3_fixed') and txt in ('{', '}', '$', '$$', '\\\\', '\\(', '\\['):
            txt += 'a'
            m.excl('F3: \\verb content equal to a single active token')
        lo = m.n
        m.emit('\\verb' + it[1])
        m.cur().append(('v', False))
        a = ['w', txt, m.n, 'verb', None]
        m.cur().append(a)
        m.emit(txt + it[1])
        a[4] = (lo + 1, m.n)
        m.features.add('verb')
    elif k == 'verbatim' and m.flags.get('no_verbatim'):
        render_item(m, ('word',))
    elif k == 'verbatim':
        lo = m.n
        m.emit('\\begin{verbatim}')
        body = it[1]
        if not m.flags.get('F3_fixed') and body in ('{', '}', '$', '$$', '\\\\', '\\(', '\\['):
            body += 'a'
            m.excl('F3: verbatim content equal to a single active token')
        m.cur().append(('sep', 'P', True))
        a = ['w', body, m.n, 'verbatim', None]
        m.cur().append(a)
        m.emit(body)
        m.emit('\\end{verbatim}')
        a[4] = (lo + 1, m.n)
        m.cur().append(('sep', 'P', True))
        m.cur().append(('v', False))
        m.features.add('verbatim')
    elif k == 'imath':
        if (m.in_head and not m.flags.get('F1_fixed')) or m.no_math:
            m.excl('formula inside heading (F1) / duplicated argument / removed environment (placeholder rotation) -> word')
            return render_item(m, ('word',))
        lo = m.n
        op, cl = ('$', '$') if it[1] == '$' else ('\\(', '\\)')
        m.emit(op + it[2])
        fill(m, it[3])
        m.emit(it[4] + it[5] + cl)
        m.mathn += 1
        ph = INLINE_PH[m.mathn % 6]
        if it[2]:
            m.cur().append(('sep', 'S', True))
        m.cur().append(('g', ph + it[4], lo, m.n, False))
        if it[5]:
            m.cur().append(('sep', 'S', True))
        m.features.add('inline-maths')
    elif k == 'accent':
        m.cur().append(('c', it[1][1], m.n, it[1][0]))
        m.emit(it[1][0])
        m.features.add('accent')
    elif k == 'par':
        m.emit('\\par')
        m.cur().append(('sep', 'P', True))
        m.cur().append(('v', True))
        m.features.add('par-macro')
    elif k == 'skip' and m.no_skip:
        render_item(m, ('word',))
    elif k == 'skip':
        m.emit('%%% LT-SKIP-BEGIN\n')
        sub = Model(m.flags)
        sub.wcount = m.wcount
        sub.no_skip = True
        # the region is parsed by LaTeX itself and by the filter under --unkn: no self-calling definition in it either
        sub.in_store = m.in_store
        render_flow(sub, it[1], first_sep=False)
        m.wcount = sub.wcount
        txt = sub.source()
        m.hidden += WORD_RE.findall(txt)
        m.emit(txt)
        m.emit('\n%%% LT-SKIP-END\n')
        m.cur().append(('v', False))
        m.cur().append(('sep', 'X', False))
        m.features.add('skip-region')
    elif k == 'table':
        fill(m, '\\begin{tabular}{KEY}')
        m.cur().append(('v', False))
        for r, row in enumerate(it[1]):
            if r:
                m.emit(' \\\\\n')
                m.cur().append(('sep', 'S', True))
            for c, cell in enumerate(row):
                if c:
                    m.emit(' & ')
                    m.cur().append(('sep', 'S', True))
                render_flow(m, cell, first_sep=False)
        m.emit('\\end{tabular}')
        m.cur().append(('v', False))
        m.features.add('table')
    elif k == 'thm':
        lo = m.n
        m.emit('\\begin{zzthm}')
        m.cur().append(('sep', 'P', True))
        if it[1] is None:
            m.cur().append(('g', 'Zzthm.', lo, m.n, False))
        else:
            m.emit('[{')
            m.cur().append(('g', 'Zzthm', lo, m.n, False))
            m.cur().append(('sep', 'S', True))
            g0 = ['g', '(', lo, None, False]
            m.cur().append(g0)
            render_flow(m, it[1], first_sep=False)
            m.emit('}]')
            g0[3] = m.n
            m.cur().append(('g', ').', lo, m.n, False))
        m.cur().append(('sep', 'S', True))
        render_flow(m, it[2], first_sep=True)
        m.emit('\\end{zzthm}')
        m.cur().append(('sep', 'P', True))
        m.cur().append(('v', False))
        m.features.add('theorem')
    elif k == 'proof':
        lo = m.n
        m.emit('\\begin{proof}')
        m.cur().append(('sep', 'P', True))
        if it[1] is None:
            m.cur().append(('g', 'Proof.', lo, m.n, False))
        else:
            m.emit('[{')
            m.cur().append(('glab',))
            render_flow(m, it[1], first_sep=False)
            m.emit('}]')
            m.cur().append(('g', '.', lo, m.n, False))
        m.cur().append(('sep', 'S', True))
        render_flow(m, it[2], first_sep=True)
        m.emit('\\end{proof}')
        m.cur().append(('sep', 'P', True))
        m.cur().append(('v', False))
        m.features.add('theorem')
    elif k == 'pair':
        lo = m.n
        m.emit('\\zzpair{')
        m.cur().append(('v', False))
        render_flow(m, it[1], first_sep=False)
        m.emit('}{')
        g0 = ['g', 'Bodymid', lo, None, False]
        m.cur().append(('sep', 'S', True))
        m.cur().append(g0)
        m.cur().append(('sep', 'S', True))
        render_flow(m, it[2], first_sep=False)
        m.emit('}')
        g0[3] = m.n
        m.cur().append(('v', False))
        m.features.add('usermacro')
    elif k == 'twice':
        lo = m.n
        m.emit('\\zztwice{')
        m.cur().append(('v', False))
        sub = []
        m.stack.append(sub)
        m.no_detach += 1
        m.no_math += 1
        render_flow(m, it[1], first_sep=False)
        m.no_detach -= 1
        m.no_math -= 1
        m.stack.pop()
        m.emit('}')
        m.cur().extend(sub)
        m.cur().append(('sep', 'S', True))
        m.cur().append(('g', 'Bodyand', lo, m.n, False))
        m.cur().append(('sep', 'S', True))
        m.cur().extend(sub)
        m.cur().append(('v', False))
        m.features.add('usermacro')
        m.features.add('duplicating-macro')
    elif k == 'optgiven':
        m.emit('\\zzopt[{')
        m.cur().append(('v', False))
        render_flow(m, it[1], first_sep=False)
        m.emit('}]{')
        w = m.word()
        m.hidden.append(w)
        m.emit(w)
        m.emit('}')
        m.cur().append(('v', False))
        m.features.add('usermacro')
    elif k in ('store', 'recall') and m.flags.get('no_definers'):
        render_item(m, ('word',))
    elif k in ('store', 'recall') and m.in_head:
        m.excl('macro definition / recall inside a heading argument (argument is expanded twice, F1) -> word')
        render_item(m, ('word',))
    elif k in ('store', 'recall') and m.in_store:
        # a stored text that names \zzcur or \zzstore would be a self-calling definition
        render_item(m, ('word',))
    elif k == 'store' and (m.no_store or m.no_detach):
        render_item(m, ('pass', ('\\zzbf{', '}'), it[1], '', ''))
    elif k == 'store':
        m.emit('\\zzstore{')
        m.cur().append(('v', False))
        sub = []
        m.stack.append(sub)
        m.no_detach += 1
        m.no_math += 1
        m.in_store += 1
        old = m.flags
        m.flags = dict(old, no_verbatim=True)
        render_flow(m, it[1], first_sep=False)
        m.flags = old
        m.in_store -= 1
        m.no_detach -= 1
        m.no_math -= 1
        m.stack.pop()
        m.emit('}')
        m.cur().extend(sub)
        m.cur().append(('v', False))
        m.stored = sub
        m.features.add('usermacro')
        m.features.add('definer-macro')
    elif k == 'recall':
        lo = m.n
        m.emit('\\zzcur')
        hi = m.n
        if m.stored is None or m.no_store:
            if m.no_store:
                # inside a removed environment: hidden anyway
                pass
            m.cur().append(('v', True))
        else:
            for a in m.stored:
                if a[0] == 'w':
                    m.cur().append(('g', a[1], lo, hi, False))
                elif a[0] == 'c':
                    m.cur().append(('g', a[1], lo, hi, False))
                elif a[0] == 'g':
                    m.cur().append(('g', a[1], lo, hi, False))
                elif a[0] == 'sep':
                    m.cur().append(a)
                else:
                    m.cur().append(('glab',))
            m.cur().append(('sep', 'S', True))
            m.cur().append(('g', 'Bodystored', lo, hi, True))
            m.features.add('definer-macro-recall')
    else:
        raise ValueError(k)


def build(doc, flags=None):
    fl, tail = doc
    m = Model(flags)
    m.emit(PREAMBLE)
    render_flow(m, fl, first_sep=False)
    m.emit(tail)
    return m


# ------------------------------------------------------------- predictions

def isblank(c):
    return c in ' \n\t\xa0\u202f' or c.isspace()


def flows_of(m):
    """[(atoms, lo, hi)]: main flow first, then detached flows in completion order"""
    return [(m.main, 0, m.n)] + list(m.done)


def expected_nonblank(m):
    """list of (char, lo, hi, kind, flow index, atom index): allowed 1-based position interval"""
    out = []
    for fi, (f, _, _) in enumerate(flows_of(m)):
        for ai, a in enumerate(f):
            if a[0] == 'w':
                for i, c in enumerate(a[1]):
                    if not isblank(c):
                        out.append((c, a[2] + i + 1, a[2] + i + 1, 'w', fi, ai))
            elif a[0] == 'c':
                if not isblank(a[1]):
                    out.append((a[1], a[2] + 1, a[2] + 1, 'c', fi, ai))
            elif a[0] == 'g':
                for c in a[1]:
                    if not isblank(c):
                        out.append((c, a[2] + 1, a[3], 'g', fi, ai))
    return out


def adjacency(flow):
    """yield (i, j, cls) for consecutive word-like atoms i<j of one flow.
    Between two copied words (w): 'P' paragraph break required; 'S' white space required, no
    blank line; 'G' only: no blank line.  If one of the two is the text of a simple generating
    macro (\\LaTeX, \\ref{..}, \\gls{..}; marked 'wordlike') only 'Sw' is claimed: a counting
    blank between them must leave at least one blank in the output.  Pairs with other generated
    text or a replaced sequence between them carry no claim."""
    last = None
    last_w = False
    seps = []
    after_cw = False
    blocked = False
    for idx, a in enumerate(flow):
        if a[0] == 'sep':
            seps.append((a[1], a[2] and not after_cw))
            if a[1] != 'P':
                after_cw = False
        elif a[0] == 'v':
            after_cw = a[1]
        elif a[0] in ('g', 'glab') and not (a[0] == 'g' and len(a) > 5 and a[5] == 'wordlike'):
            blocked = True
            after_cw = a[0] == 'g' and a[4]
        elif a[0] == 'c':
            blocked = True          # replaced sequences may be blanks themselves (~ \\,)
            after_cw = False
        else:
            is_w = a[0] == 'w'
            if last is not None and not blocked:
                if any(c == 'X' for c, _ in seps) and not (is_w and last_w and any(c == 'P' for c, _ in seps)):
                    # across a skip region only a paragraph break is claimed (seeded change C05-H); the line end of
                    # the end marker swallows or forms white space depending on what follows
                    cls = None
                elif is_w and last_w:
                    if any(c == 'P' for c, _ in seps):
                        cls = 'P'
                    elif any(c == 'S' and counts for c, counts in seps):
                        cls = 'S'
                    else:
                        cls = 'G'
                else:
                    cls = 'Sw' if any(counts for c, counts in seps) else None
                if cls:
                    yield last, idx, cls
            last = idx
            last_w = is_w
            seps = []
            blocked = False
            after_cw = (not is_w) and a[4]
