"""Token-soup and argument-shape generators, option vectors (C01, C07).

All randomness comes from random.Random objects seeded by the runner.
"""
import contextlib
import io
import itertools

from vlib import sut

LANGS = [None, 'en', 'de', 'ru', 'en-GB', 'de-DE', 'xx']
PACKS = [None, '', '*', '*', '*,cleveref', 'babel', 'amsmath,amsthm', 'glossaries', 'biblatex,xspace',
         'xcolor,hyperref,graphicx', 'tikz,listings,circuitikz', 'cleveref']
DCLS = [None, '', 'article', 'book', 'report', 'scrartcl', 'scrbook', 'scrreprt']
DEFS = [None, None, '\\newcommand{\\zz}[1]{(#1)}', '\\newcommand{\\zzv}{\\verb|abcdefgh|}\\newcommand{\\zzw}{\\begin{verbatim}abc def\\end{verbatim}}',
        '\\usepackage[german]{babel}\n',
        '\\newcommand{\\zzo}[2][d]{#1:#2}\n\\def\\zzd#1{<#1>}\n',
        '\\newtheorem{zzthm}{Zzthm}\n\\newcommand{\\zz}{ZZ\\zzo{a}}\n\\newcommand{\\zzo}[1]{[#1]}',
        # visible and detached text in the definitions: all of it is dropped, nothing may come back with foreign positions
        '% ' + 'x' * 200 + '\nSome text \\footnote{foot text in the definitions}\n\\begin{figure}\\caption{cap text}\\end{figure}\n\\newcommand{\\zz}[1]{(#1)}\n']
EXTR = [None, None, None, 'footnote,section', 'zz', 'caption,footnote', 'foreignlanguage', 'zzo,cite', 'LaTeX,par,TeX', 'item,ss,hfill,xspace', 'textbackslash,newline,qedhere']
REPL = [None, None, ['a b & c\n'], ['Word & W W W\n', 'a &\n'], ['LATEXXXERROR & x\n']]

DEF_FRAGMENTS = [
    '\\newcommand{\\zza}[1]{(#1)}', '\\renewcommand{\\zzb}[2][x]{#1-#2}', '\\def\\zzc#1#2{#2#1}',
    '\\newcommand{\\zzd}{\\zza{q}}', '\\newcommand{\\zze}[2]{#2#1}', '\\newtheorem{zzthm}{Zzthm}',
    '\\newcommand*{\\zzf}[3][]{#3#1}', '\\def\\zzg{G}', '\\renewcommand{\\textbf}[1]{#1}',
    '\\newcommand{\\zzh}[1]{\\footnote{#1}}', '\\def\\zzi[#1]{#1}',
    '\\footnote{a \\LTinput{zz-lang.tex}}', '\\LTinput{zz-lang.tex}', '\\[a &\\text{b \\LTinput{zz-lang.tex}} & c\\]', '\\caption{\\LTinput{zz-lang.tex}}', '\\LTinput{zz-foot.tex}', '\\LTinput{zz-foot.tex}',
    '\\newcommand{\\zzs}{   \n  }', '\\newcommand{\\zzs}{a \n \n  b}', '\\newcommand{\\zzv}{\\verb|abcdefgh|}', '\\newcommand{\\zzw}{\\begin{verbatim}abc def\\end{verbatim}}',
    '\\newacronym{a}{b}{\u00df}', '\\newglossaryentry{g}{name=n,description={\ufb01x}}', '\\newacronym{a}{b}{\u0390}', '\\newglossaryentry{g}{description={\ufb03}}', '\\newacronym{a}{b}{\u0390 x}',
]
DEFINERS = ('\\newcommand', '\\renewcommand', '\\def')


def draw_options(rnd, full=True):
    ml = rnd.random() < 0.3
    kw = dict(lang=rnd.choice(LANGS), pack=rnd.choice(PACKS), dcls=rnd.choice(DCLS),
              seqs=rnd.random() < 0.2, nosp=rnd.random() < 0.15,
              extr=rnd.choice(EXTR), defs=rnd.choice(DEFS), repl=rnd.choice(REPL),
              unkn=(rnd.random() < 0.05) and not ml)
    thresh = rnd.choice([None, 0, 1, 2, 3, 5]) if ml else None
    return kw, ml, thresh


_catalogue = None


def catalogue():
    """(macros {name: args}, environments {name: args}) of a parser with every
    package, cleveref and two classes loaded"""
    global _catalogue
    if _catalogue is None:
        parms = sut.yparameters.Parameters('en')
        t2t = sut._t2t
        packs = (t2t.get_packages('*,cleveref', parms.package_modules)
                 + t2t.get_packages('article,scrartcl', parms.class_modules))
        with contextlib.redirect_stderr(io.StringIO()):
            p = sut.yparser.Parser(parms, packs)
        _catalogue = ({k: v.args for k, v in sorted(p.the_macros.items())},
                      {k: v.args for k, v in sorted(p.the_environments.items())})
    return _catalogue


_voc = None


def vocabulary():
    global _voc
    if _voc is None:
        macros, envs = catalogue()
        names = [m for m in macros if m not in DEFINERS]
        _voc = (names + ['\\begin{%s}' % e for e in envs] + ['\\end{%s}' % e for e in envs]
                + DEF_FRAGMENTS
                + ['\\begin', '\\end', '\\item', '\\item[', '\\verb', '\\verb|', '\\zz', '\\zza', '\\zzb', '\\zzc',
                   '\\zzd', '\\zze', '\\zzf', '\\zzh', '\\zzi', '\\zzv', '\\zzw', '\\zzs', '\u00df', '\ufb01', '\u0390', '\\begin{zzthm}', '\\end{zzthm}', '\\begin{zzenv}', '\\end{zzenv}',
                   '{', '}', '[', ']', '$', '$$', '\\(', '\\)', '\\[', '\\]', '{', '}', '{', '}', '[', ']',
                   '#', '#1', '#2', '#9', '&', '\\\\', '%', '%x\n', '%%% LT-SKIP-BEGIN\n', '%%% LT-SKIP-END\n',
                   '~', '_', '^', '*', ' ', ' ', '\n', '\n\n', 'a', 'b', 'Word', '.', ',', '1', '"', '"a', '"`', "\\'",
                   '\\"', '\\^', '\\c', '\\v', '\\H', '=', '+', '-', '--', '``', "''", '\\,', '\\;', '\\ ', '\\',
                   'english', 'german', 'russian', 'poorman', '{german}', '{verbatim}', 'verbatim', '\\text', '\\mbox',
                   '\\frac', '\\alpha', 'é', 'ж', ' ', '\xa0', '\t', '\r', 'x=1', 'description', 'text', 'name',
                   'lab', '{lab}', 'file.tex', 'K-K-K', 'LATEXXXERROR'])
    return _voc


def gen_soup(rnd, maxlen=14):
    voc = vocabulary()
    n = rnd.randint(1, maxlen)
    return ''.join(rnd.choice(voc) for _ in range(n))


# -------------------------------------------------------- argument shapes

SHAPES = ['', '{}', '[]', '{x}', '[x]', '*', '{x', '[x', '}']
FOLLOW = ['', ' a', '}', '\n\n', '$']


def shape_targets():
    macros, envs = catalogue()
    t = [(m, a, m) for m, a in macros.items() if m not in DEFINERS]
    # definers: shapes with harmless bodies only (no self reference possible: x is not a macro)
    t += [(m, a, m) for m, a in macros.items() if m in ('\\newcommand', '\\renewcommand')]
    t += [('\\begin{%s}' % e, a, e) for e, a in envs.items()]
    t += [('\\item', 'O', '\\item'), ('\\zzunknown', 'AA', '\\zzunknown'), ('\\def', 'AAA', '\\def'),
          ('\\end{itemize}', '', 'end-itemize'), ('\\end{zz}', '', 'end-zz'), ("\\'", 'A', 'accent'), ('\\c', 'A', 'accent-c'),
          ('$\\frac', 'AA', 'math-frac'), ('\\[\\text', 'A', 'math-text'), ('\\verb', 'A', 'verb')]
    return t


def shapes_for(head, args, rnd=None, limit=None):
    """yield sources: head + one shape per declared slot + follower"""
    slots = max(len(args), 1)
    total = len(SHAPES) ** slots * len(FOLLOW)
    if limit is None or total <= limit:
        for combo in itertools.product(SHAPES, repeat=slots):
            for f in FOLLOW:
                yield head + ''.join(combo) + f
    else:
        for _ in range(limit):
            combo = [rnd.choice(SHAPES) for _ in range(slots)]
            yield head + ''.join(combo) + rnd.choice(FOLLOW)


KV_ITEMS = ['description', 'text', 'k', 'k=', 'k=v', 'k={v}', 'k={v', 'k=}', 'k={a,b}', ',', ' ', '=', '{', '}', 'description={D d}',
            'text=\\zz', 'german', 'poorman', 'k=[', ']']
KV_HEADS = [('\\usepackage[', ']{babel} a'), ('\\usepackage[', ']{cleveref}'), ('\\documentclass[', ']{article}'),
            ('\\newglossaryentry{lab}{', '} a'), ('\\gls@defglossaryentry{lab}{', '}\\gls{lab}'), ('\\KOMAoptions{', '}'),
            ('\\geometry{', '}'), ('\\lstset{', '}'), ('\\includegraphics[', ']{f}'), ('\\usepackage[', ''),
            ('\\newglossaryentry{lab}{', ''), ('\\begin{lstlisting}[', ']x\\end{lstlisting}')]


def keyval_shapes(rnd, full3, sample3=400):
    for pre, post in KV_HEADS:
        for n in (1, 2):
            for combo in itertools.product(KV_ITEMS, repeat=n):
                yield pre + ''.join(combo) + post
        if full3:
            for combo in itertools.product(KV_ITEMS, repeat=3):
                yield pre + ''.join(combo) + post
        else:
            for _ in range(sample3):
                yield pre + ''.join(rnd.choice(KV_ITEMS) for _ in range(3)) + post


DEF_PARAM = ['#1', '#2', '#3', '[', ']', '(', ')', ',', 'x', ' ', '#', '#1', '#2']
DEF_BODY = ['#1', '#2', '#3', '#4', '#9', 'x', '#', '\\zza{a}', '{', '}', ' ', '##1', '$', '\\footnote{#1}', '\\textbf{#2}']
DEF_USE = ['', '{a}{b}', '[a]', '(a,b)', ' a b c', '{a', '[a]{b}{c}', ' ', '\\zza', '}']   # never \\zzq itself: self-application loops in TeX too
NC_N = ['', '[0]', '[1]', '[2]', '[3]', '[9]', '[10]', '[x]', '[-1]', '[]', '[ 2 ]', '[999999999999]', '[99999]']
NC_DEF = ['', '', '[d]', '[]', '[#1]', '[{]}]']


def definition_shape(rnd):
    """a complete (possibly ill-formed) definition of \\zzq whose body never names \\zzq, followed by a use"""
    body = ''.join(rnd.choice(DEF_BODY) for _ in range(rnd.randint(0, 3)))
    close = '}' if rnd.random() < 0.9 else ''
    if rnd.random() < 0.5:
        par = ''.join(rnd.choice(DEF_PARAM) for _ in range(rnd.randint(0, 4)))
        d = '\\def\\zzq' + par + '{' + body + close
    else:
        cmd = rnd.choice(['\\newcommand', '\\renewcommand', '\\newcommand*'])
        name = rnd.choice(['{\\zzq}', '\\zzq', '{\\zzq}', '{zzq}', '{}'])
        d = cmd + name + rnd.choice(NC_N) + rnd.choice(NC_DEF) + '{' + body + close
    use = rnd.choice(['\\zzq', '\\zzq', ' a \\zzq']) + rnd.choice(DEF_USE)
    return d + rnd.choice(['', ' ', '\n']) + use + rnd.choice(['', ' z', '\n\nz'])


WRAP_DEF = ['\\newcommand{\\zq}{%s}', '\\def\\zq{%s}', '\\newcommand{\\zq}[1][d]{%s}', '\\newcommand\\zq{%s}']
WRAP_TAIL = ['', '', '', ' ', '\n', '.', ' ab', ' Ok.', '{x}', '\\zq', '\n\nNext text.\n']


def wrapped_shape(rnd, targets):
    """a construct of the vocabulary hidden in the body of the short macro \\zq, which is then
    called at (or close to) the very end of the text: everything the construct generates
    stems from a call that is only three characters long"""
    while True:
        head, args, name = rnd.choice(targets)
        if name not in ('\\newcommand', '\\renewcommand', '\\def'):
            break
    body = head
    for c in args:
        if c == 'A':
            body += rnd.choice(['{a}', '{a}', '{Ab c}'])
        elif c == 'O':
            body += rnd.choice(['', '', '[b]'])
    d = rnd.choice(WRAP_DEF) % body
    pre = rnd.choice(['', 'Word ', 'Word\n\n', '\\zq\n'])
    return d + rnd.choice(['\n', ' ', '']) + pre + '\\zq' + rnd.choice(WRAP_TAIL)


def is_malformed(src):
    """independent, cheap test for 'malformed': unbalanced braces / brackets /
    environments / maths, stray #, or a macro at the very end"""
    depth = 0
    i = 0
    n = len(src)
    begins = src.count('\\begin')
    ends = src.count('\\end')
    while i < n:
        c = src[i]
        if c == '\\':
            i += 2
            continue
        if c == '{':
            depth += 1
        elif c == '}':
            depth -= 1
            if depth < 0:
                return True
        i += 1
    if depth != 0 or begins != ends:
        return True
    if src.count('$') % 2 or src.count('\\(') != src.count('\\)') or src.count('\\[') != src.count('\\]'):
        return True
    if '#' in src.replace('\\#', ''):
        return True
    return False
