"""Long-lived filter worker for the history checks (C17): one JSON request per line on stdin,
one JSON answer per line on stdout.  Imports yalafi from PYTHONPATH (the repository working tree)."""
import io
import json
import sys


def main():
    from yalafi import tex2txt
    out = sys.stdout
    for line in sys.stdin:
        req = json.loads(line)
        err = io.StringIO()
        old = sys.stderr
        sys.stderr = err
        try:
            opts = tex2txt.Options(**req['opts'])
            mod = None
            if req.get('thresh') is not None:
                t = req['thresh']

                def mod(p):
                    p.ml_continue_thresh = t
            r = tex2txt.tex2txt(req['src'], opts, multi_language=req['ml'], modify_parms=mod)
            if req['ml']:
                r = {k: [[p[0], list(p[1])] for p in v] for k, v in r.items()}
            else:
                r = [r[0], list(r[1])]
            ans = {'ok': True, 'result': r, 'stderr': err.getvalue()}
        except SystemExit as e:
            ans = {'ok': False, 'exception': 'SystemExit', 'stderr': err.getvalue()}
        except Exception as e:
            ans = {'ok': False, 'exception': type(e).__name__ + ': ' + str(e), 'stderr': err.getvalue()}
        finally:
            sys.stderr = old
        out.write(json.dumps(ans) + '\n')
        out.flush()


if __name__ == '__main__':
    main()
