"""C11 - displayed equations follow the documented scheme and keep their punctuation.

Grammar: equations of rows x alignment sections x parts (maths parts with
optional leading maths space(s), leading operator, elements, inner operators,
trailing punctuation, then \\label / \\nonumber / maths space; text parts
\\text{..} / \\mbox{..} with unique words).  Reference rewriter written from
README section "Handling of displayed equations" (rows, sections, parts, lazy
rotation, operator words per language).
"""
import re

from hypothesis import strategies as st

from vlib import sut
from vlib.runner import Violation, hyp_run, sut_frame, watchdog

ID = 'C11'
LEVEL = 'exploration'
RULE = ('Hypothesis: 1-3 displayed equations per document, each rows(1-3) x sections(1-3) x parts(1-3) from the grammar above; environments equation(*), align(*), alignat, eqnarray(*), gather, '
        'flalign*, multiline, displaymath, \\[..\\], $$..$$; languages en/de/ru; simple-equations option on and off; optional \\\\[2mm] row ends, trailing \\\\ or & (empty last row/section). '
        'oracle: per output line the non-blank content equals the reference rewriter (placeholders with rotation carried across equations, operator words, \\text words, punctuation directly after '
        'its placeholder); \\text words carry exact positions, every other character maps inside the equation; simple mode: one display placeholder + final punctuation mark. '
        'non-trivial = (at least 2 rows or a text part) and a trailing punctuation mark followed by \\label / \\nonumber / maths space; distinct by source text')
RULE += ' Additions: user macros whose body is one capital letter; metamorphic multi-language run: an equation in a foreign-language block leaves the placeholders of the main-language text unchanged.'
ASSUMPTIONS = [
    'shapes on which README is silent are not generated: blank \\text{ }, text parts without words',
    'output lines are compared by their non-blank content (README notes that adjacent parts are glued); lines left empty by empty rows are ignored on both sides',
    'in simple mode the statement does not fix which member of the display collection is used: any member is accepted',
]
LEVEL_TEXT = ('Generated search with a reference rewriter for the documented scheme: any deviation in placeholder choice/rotation, operator words, punctuation, row structure, text positions is a violation.')
LEVEL_NOTE = 'Trusted: the 60-line reference rewriter (from README). Sampling only.'
TECHNIQUE = 'Hypothesis grammar-based equation generator + reference rewriter (differential), position-span oracle'

OPS = ['=', '+', '-', '<', '\\le', '\\cdot', '\\times', '/', '\\to', '\\neq', '\\subset', '>', ':=', '\\cup']
OPTXT = {'en': {'+': 'plus', '-': 'minus', '\\cdot': 'times', '\\times': 'times', '/': 'over', None: 'equal'},
         'de': {'+': 'plus', '-': 'minus', '\\cdot': 'mal', '\\times': 'mal', '/': 'durch', None: 'gleich'},
         'ru': {'+': 'плюс', '-': 'минус', '\\cdot': 'раз', '\\times': 'раз', '/': 'на', None: 'равно'}}
REPL = {'en': ['U-U-U', 'V-V-V', 'W-W-W', 'X-X-X', 'Y-Y-Y', 'Z-Z-Z'],
        'de': ['U-U-U', 'V-V-V', 'W-W-W', 'X-X-X', 'Y-Y-Y', 'Z-Z-Z'],
        'ru': ['Ц-Ц-Ц', 'Ч-Ч-Ч', 'Ш-Ш-Ш', 'Ы-Ы-Ы', 'Э-Э-Э', 'Ю-Ю-Ю']}
ELEM = ['a', 'x_1', '\\alpha', '\\frac{a}{b}', 'f(x)', '\\zzm{a}{b}', '2', '{a}', 'x^{2}', '\\sqrt{y}',
        # user macros whose body is one capital letter (also letters of the error mark; seeded change C11-G)
        '\\zzR', '\\zzL', 'X', 'E']
LEAD = ['', '', '', '\\,', '\\quad ', '~', '\\ ', '\\qquad\\qquad ', '\\quad\\; ']
TRAIL = ['', '', ' \\label{kk}', ' \\nonumber', '\\,', ' \\quad ', ' \\label{kk}\\,', ' %c\n']
ENVS = ['equation', 'align', 'align*', 'eqnarray', 'gather', '[', '$$', 'displaymath', 'multiline', 'flalign*',
        'equation*', 'alignat', 'eqnarray*', 'gather*', 'alignat*', 'flalign', 'multiline*', 'alignat*']

part = st.tuples(st.sampled_from(LEAD), st.one_of(st.none(), st.sampled_from(OPS)),
                 st.lists(st.tuples(st.sampled_from(ELEM), st.one_of(st.just(''), st.sampled_from(OPS))), min_size=0, max_size=3),
                 st.sampled_from(['', '', '.', ',', ';', ':']), st.sampled_from(TRAIL))
text = st.tuples(st.just('T'), st.sampled_from(['\\text', '\\mbox', '\\text']), st.sampled_from(['%s', '%s %s', ' %s ', '%s ', ' %s', '%s.', ' %s, ']),
                 st.sampled_from(['', '', '', '\\textcolor{red}{', '\\zzone{', '\\colorbox{red}{']))
section = st.lists(st.one_of(part, part, text), min_size=1, max_size=3)
row = st.lists(section, min_size=1, max_size=3)
equation = st.tuples(st.sampled_from(ENVS), st.lists(row, min_size=1, max_size=3),
                     st.sampled_from(['', '', '', ' \\\\', ' &', ' \\\\ \\nonumber']), st.sampled_from([' \\\\\n', ' \\\\[2mm]\n', '\\\\ ']))
doc_s = st.tuples(st.sampled_from(['en', 'de', 'ru']), st.booleans(), st.lists(equation, min_size=1, max_size=3))


class R:
    def __init__(self):
        self.src = ''
        self.n = 0
        self.words = {}

    def word(self, prefix='T'):
        self.n += 1
        return prefix + ''.join('abcdefghij'[int(d)] for d in '%03d' % self.n) + 'q'


def render_eq(r, eq):
    """appends the equation to r.src, returns structure for the reference: rows -> sections -> parts
    with text parts as ('T', [words], raw)"""
    env, rows, ending, rowsep = eq
    struct = []
    body = ''
    for ri, rw in enumerate(rows):
        if ri:
            body += rowsep
        secs = []
        for si, s in enumerate(rw):
            if si:
                body += ' & '
            ps = []
            for pi, p in enumerate(s):
                if pi:
                    body += ' '
                if p[0] == 'T':
                    fmt = p[2]
                    ws = [r.word() for _ in range(fmt.count('%s'))]
                    wrap = p[3] if len(p) > 3 else ''
                    body += wrap + p[1] + '{'
                    base = None
                    txt = fmt % tuple(ws)
                    ps.append(('T', ws, txt, len(body)))
                    body += txt + '}' + ('}' if wrap else '')
                else:
                    lead, op, els, punct, trail = p
                    if not els:
                        punct = ''
                    b = ' '.join(e + (' ' + o if o else '') for e, o in els)
                    body += lead + (op + ' ' if op else '') + b + punct + trail
                    ps.append(p if els else (lead, op, els, '', trail))
            secs.append(ps)
        struct.append(secs)
    body += ending
    if env == '[':
        pre, post = '\\[ ', ' \\]'
    elif env == '$$':
        pre, post = '$$ ', ' $$'
    elif env in ('alignat', 'alignat*'):
        pre, post = '\\begin{%s}{2} ' % env, ' \\end{%s}' % env
    else:
        pre, post = '\\begin{%s} ' % env, ' \\end{%s}' % env
    lo = len(r.src)
    base = lo + len(pre)
    r.src += pre + body + post
    hi = len(r.src)
    # absolute offsets of text words
    for secs in struct:
        for ps in secs:
            for p in ps:
                if p[0] == 'T':
                    off = base + p[3]
                    txt = p[2]
                    for w in p[1]:
                        r.words[w] = off + txt.index(w)
    return struct, lo, hi


def p_tokens(p):
    lead, op, els, punct, trail = p
    t = []
    if lead:
        t.append(('sp',))
    if op:
        t.append(('op', op))
    for e, o in els:
        t.append(('el', e))
        if o:
            t.append(('op', o))
    if punct:
        t.append(('el', punct))
    if trail.endswith('\\,') or trail == ' \\quad ':
        t.append(('sp',))
    return t


def merge(sec):
    out = []
    for p in sec:
        if p[0] == 'T':
            out.append(p)
        elif out and out[-1][0] == 'M':
            out[-1] = ('M', out[-1][1] + p_tokens(p))
        else:
            out.append(('M', p_tokens(p)))
    return out


def reference(struct, state, lang):
    lines = []
    next_repl = True
    for r in struct:
        line = []
        for si, s in enumerate(r):
            first_part = si > 0
            for p in merge(s):
                if p[0] == 'T':
                    line += [''.join(p[2].split())]
                    first_part = False
                    next_repl = True
                    continue
                toks = p[1]
                if not toks or all(t[0] == 'sp' for t in toks):
                    continue
                nonsp = [t for t in toks if t[0] != 'sp']
                op = nonsp[0][1] if nonsp[0][0] == 'op' else None
                elem = any(t[0] == 'el' and t[1] not in '.,;:' for t in toks)
                if first_part and op:
                    line.append(OPTXT[lang].get(op, OPTXT[lang][None]))
                if (next_repl or (op and first_part)) and elem:
                    state[0] += 1
                s_ = ''
                if elem:
                    s_ = REPL[lang][state[0] % 6]
                next_repl = False
                lastc = nonsp[-1][1][-1]
                if lastc in '.,;:':
                    s_ += lastc
                    next_repl = True
                if op and not elem:
                    next_repl = True
                if s_:
                    line.append(s_)
        lines.append(line)
    return lines


def check(doc):
    lang, seqs, eqs = doc
    r = R()
    items = []
    r.src += '\\newcommand{\\zzone}[1]{#1}\n\\newcommand{\\zzR}{\\mathbb{R}}\\newcommand{\\zzL}{L}\n' + r.word('W') + '\n'
    first = r.src.strip().split('\n')[-1]
    marks = [first]
    for e in eqs:
        st_, lo, hi = render_eq(r, e)
        w = r.word('W')
        r.src += '\n' + w + '\n'
        marks.append(w)
        items.append((st_, lo, hi, e))
    src = r.src
    case = {'doc': doc, 'src': src}
    try:
        with watchdog(20):
            (plain, pos), err = sut.tex2txt(src, lang=lang, pack='*', seqs=seqs)
    except Exception as e:
        raise Violation('exception:' + sut_frame(e), case, repr(e))
    if err:
        raise Violation('diagnostic-on-well-formed-document', case, err)
    state = [0]
    stats = {'rows': 0, 'text': 0, 'punct_then_more': 0}
    for k, (st_, lo, hi, e) in enumerate(items):
        a = plain.find(marks[k])
        b = plain.find(marks[k + 1])
        det = {'equation_source': src[lo:hi], 'plain': plain}
        if a < 0 or b < 0 or b < a:
            raise Violation('text-around-equation-lost', case, det)
        region = plain[a + len(marks[k]):b]
        rpos = pos[a + len(marks[k]):b]
        ref = reference(st_, state, lang)
        stats['rows'] = max(stats['rows'], len(st_))
        flat = ''.join(''.join(l) for l in ref)
        if seqs:
            got = ''.join(region.split())
            fin = flat[-1] if flat and flat[-1] in '.,;:' else ''
            if not any(got == ph + fin for ph in REPL[lang]):
                det['expected'] = '<one display placeholder>' + fin
                det['actual'] = got
                raise Violation('simple-equation-rendering', case, det)
        else:
            act = [''.join(l.split()) for l in region.split('\n')]
            act = [l for l in act if l]
            exp = [''.join(l) for l in ref if l]
            if act != exp:
                det['expected_lines'] = exp
                det['actual_lines'] = act
                raise Violation('equation-rendering', case, det)
        # positions
        words = sorted((w for w in r.words if lo <= r.words[w] < hi), key=lambda w: r.words[w])
        covered = {}
        for w in words:
            i = region.find(w)
            if seqs:
                continue
            if i < 0:
                det['lost'] = w
                raise Violation('text-part-lost', case, det)
            want = list(range(r.words[w] + 1, r.words[w] + 1 + len(w)))
            if rpos[i:i + len(w)] != want:
                det['word'] = w
                det['expected_positions'] = want
                det['actual_positions'] = rpos[i:i + len(w)]
                raise Violation('text-part-position', case, det)
            for j in range(i, i + len(w)):
                covered[j] = True
            stats['text'] += 1
        for j, c in enumerate(region):
            if j in covered or c in ' \n\t':
                continue
            if not (lo + 1 <= rpos[j] <= hi):
                det['char'] = c
                det['position'] = rpos[j]
                det['equation_span'] = [lo + 1, hi]
                raise Violation('equation-character-outside-equation', case, det)
        # blanks inside the region: copied source blanks around the equation or generated inside the span
        for j, c in enumerate(region):
            if c in ' \n\t' and not (lo <= rpos[j] <= hi + 1):
                det['blank_position'] = rpos[j]
                det['equation_span'] = [lo + 1, hi]
                raise Violation('equation-blank-outside-equation', case, det)
        for secs in st_:
            for ps in secs:
                for p in ps:
                    if p[0] != 'T' and p[3] and p[4].strip():
                        stats['punct_then_more'] += 1
    # metamorphic, multi-language mode: an equation inside a foreign-language block advances the collection of
    # that language only - the main-language text shows the same placeholders in the same order as before
    # (seeded change C11-H)
    if len(marks) >= 2 and (len(src) + len(eqs)) % 2 == 0:
        foreign, fkey = ('english', 'en-GB') if lang == 'de' else ('german', 'de-DE')
        cut = src.index(marks[1]) + len(marks[1])
        src2 = src[:cut] + '\n\\begin{otherlanguage}{%s}\n\\[ a = b. \\]\nwort\n\\end{otherlanguage}\n' % foreign + src[cut:]
        case2 = {'doc': doc, 'src': src2}
        try:
            with watchdog(20):
                r2, err2 = sut.tex2txt(src2, ml=True, lang=lang, pack='*', seqs=seqs)
        except Exception as e:
            raise Violation('exception:' + sut_frame(e), case2, repr(e))
        ph = re.compile('|'.join(re.escape(x) for x in REPL['en'] + REPL['ru']))
        seq1 = ph.findall(plain)
        seq2 = ph.findall(''.join(p[0] for k in r2 if k != fkey for p in r2[k]))
        if seq1 != seq2:
            raise Violation('foreign-language-equation-changes-main-language-placeholders', case2,
                            {'single_language_run': seq1, 'main_language_parts': seq2, 'result': r2})
        stats['ml'] = 1
    nt = (stats['rows'] >= 2 or stats['text'] > 0) and stats['punct_then_more'] > 0
    return src, nt, stats


def replay(case):
    from vlib.docprop import untuple
    try:
        check(untuple(case['doc']))
    except Violation as v:
        return v
    return None


def run_shard(ctx):
    def one(doc):
        src, nt, stats = check(doc)
        cl = ['lang:' + doc[0], 'simple-mode' if doc[1] else 'full-mode']
        if stats['rows'] >= 2:
            cl.append('multi-row')
        if stats['text']:
            cl.append('text-part')
        ctx.stats.case(key=src, nontrivial=nt, classes=cl,
                       sample={'src': src, 'lang': doc[0], 'seqs': doc[1]})
    hyp_run(ctx, doc_s, one, ctx.n(20000, 400000))
