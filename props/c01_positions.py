"""C01 - every output character has exactly one source position, inside the source.

Direct predicate on every returned (text, map) pair, for well-formed generated
documents, malformed inputs (token soups, argument shapes), injected faults
(error marks close to the end of the text) and through the command line
(--nums / --mula files), under random option vectors.
"""
import os
import random
import re

from vlib import docgen, soup, sut
from vlib.runner import CaseTimeout, Violation, h64, hyp_run, sut_frame, watchdog

TIMEOUTS = []

ID = 'C01'
LEVEL = 'exploration'
RULE = ('inputs: (a) Hypothesis-generated well-formed documents (generator of C03), (b) seeded token soups and argument / key-value / definition shapes (generators of C07), every catalogued macro and environment wrapped in the body of a three-character macro that is called at the end of the text, '
        '(c) documents with one injected fault incl. faults within the last 14 characters (generator of C08), (e) every document of (a) also cut right behind two of its macro calls / closing braces (text that ends in the middle of a construct), (d) a sample of all of these through `python -m yalafi --nums` and `--mula`; '
        'each under a seeded random option vector (lang, pack, dcls, defs, extr, seqs, nosp, repl, unkn, multi-language with thresholds). '
        'oracle: len(text) == len(map) and 1 <= p <= len(source) for every entry of every part (with unkn only the length claim); CLI: one number per character of stdout / of each part file, all in range. '
        'non-trivial = non-empty output that contains generated text (a position repeated for neighbouring characters), an error mark, or at least two language parts; distinct by (source, options)')
ASSUMPTIONS = [
    'options that load user Python modules (--pack .mod) are outside the domain',
    'inputs on which the filter raises are counted but left to C07 (no double alarm), except through the command line, where a non-zero exit status is reported',
]
LEVEL_TEXT = ('Generated search with the property itself as executable predicate on every returned pair; the generators are those of C03/C07/C08 so that generated text, removed lines, error marks '
              'at the end of the text, multi-language splits and phrase replacement all occur; the command-line route is sampled with subprocesses.')
LEVEL_NOTE = 'Sampling only. The predicate is exact (no model involved).'
TECHNIQUE = 'Hypothesis documents + PRNG soups + fault injection under random option vectors; direct invariant check; subprocess differential for the CLI files'
MARK = 'LATEXXXERROR'
CUT_RE = re.compile(r'\\[A-Za-z]+\*?|\\.|[}\]$]')


def predicate(src, res, ml, unkn):
    """list of problems"""
    n = len(src)
    parts = sut.parts_of(res, ml)
    for lang, plain, cmap in parts:
        if len(plain) != len(cmap):
            return {'problem': 'length', 'lang': lang, 'len_text': len(plain), 'len_map': len(cmap)}
        if unkn:
            continue
        for i, p in enumerate(cmap):
            if not isinstance(p, int) or not (1 <= p <= n):
                return {'problem': 'range', 'lang': lang, 'index': i, 'position': p, 'len_source': n,
                        'text_around': plain[max(0, i - 10):i + 10]}
    return None


def classify(res, ml):
    parts = sut.parts_of(res, ml)
    cl = []
    nonempty = any(p[1] for p in parts)
    if any(MARK in p[1] for p in parts):
        cl.append('error-mark')
    if len(parts) >= 2:
        cl.append('two-or-more-parts')
    for _, plain, cmap in parts:
        if any(a == b for a, b in zip(cmap, cmap[1:])):
            cl.append('generated-text')
            break
    return nonempty and bool(cl), cl


def run_one(ctx, src, kw, ml, thresh, gen):
    case = {'src': src, 'opts': kw, 'ml': ml, 'thresh': thresh}
    try:
        with watchdog(20):
            res, err = sut.tex2txt(src, ml=ml, thresh=thresh, **kw)
    except (Exception, SystemExit) as e:
        ctx.stats.case(key=(src, str(kw), ml), classes=[gen, 'filter-raised (left to C07)'])
        return
    except CaseTimeout:
        ctx.stats.case(key=(src, str(kw), ml), classes=[gen, 'filter-timeout (left to C07)'])
        ctx.stats.extra.setdefault('timeouts', []).append(case) if False else None
        TIMEOUTS.append(case)
        return
    bad = predicate(src, res, ml, kw.get('unkn'))
    if bad:
        ctx.violation(Violation('position-list:' + bad['problem'], case, bad))
    nt, cl = classify(res, ml)
    st = ctx.stats
    st.case(key=(src, sorted((k, str(x)) for k, x in kw.items()), ml), nontrivial=nt, classes=[gen] + cl + (['multi-language'] if ml else []),
            sample={'src': src[-300:], 'opts': {k: x for k, x in kw.items() if x}, 'ml': ml})


def replay(case):
    if case.get('cli'):
        return cli_check(case)
    try:
        with watchdog(60):
            res, err = sut.tex2txt(case['src'], ml=case['ml'], thresh=case.get('thresh'), **case['opts'])
    except (Exception, SystemExit):
        return None
    bad = predicate(case['src'], res, case['ml'], case['opts'].get('unkn'))
    if bad:
        return Violation('position-list:' + bad['problem'], case, bad)
    return None


# ------------------------------------------------------------------ CLI

def cli_check(case):
    d = os.path.join(sut.scratch_dir(), 'cli')
    os.makedirs(d, exist_ok=True)
    for f in os.listdir(d):
        os.unlink(os.path.join(d, f))
    src = case['src']
    with open(os.path.join(d, 'in.tex'), 'w', encoding='utf-8', newline='') as f:
        f.write(src)
    args = list(case['args'])
    if case['mula']:
        args += ['--mula', 'part', '--nums', 'num']
    else:
        args += ['--nums', 'num.txt']
    rc, out, err = sut.run_cli('yalafi', args + ['in.tex'], cwd=d)
    if rc != 0 or b'Traceback' in err:
        return Violation('cli-exit-status', case, {'rc': rc, 'stderr': err.decode('utf-8', 'replace')[-500:]})
    # the file is read in text mode with universal newlines
    n = len(src.replace('\r\n', '\n').replace('\r', '\n'))
    pairs = []
    if case['mula']:
        for f in sorted(os.listdir(d)):
            if f.startswith('part.'):
                with open(os.path.join(d, f), encoding='utf-8', newline='') as fh:
                    txt = fh.read()
                numf = os.path.join(d, 'num.' + f[len('part.'):])
                if not os.path.exists(numf):
                    return Violation('cli-nums-file-missing', case, {'part': f})
                pairs.append((f, txt, open(numf).read().split('\n')))
    else:
        pairs.append(('stdout', out.decode('utf-8'), open(os.path.join(d, 'num.txt')).read().split('\n')))
    for name, txt, nums in pairs:
        if nums and nums[-1] == '':
            nums.pop()
        if len(nums) != len(txt):
            return Violation('cli-nums-length', case, {'file': name, 'chars': len(txt), 'numbers': len(nums)})
        if '--unkn' in args:
            continue
        for i, s in enumerate(nums):
            v = s.rstrip('+')
            if not v.isdigit() or not (1 <= int(v) <= n):
                return Violation('cli-nums-range', case, {'file': name, 'index': i, 'number': s, 'len_source': n})
    case['_parts'] = len(pairs)
    case['_chars'] = sum(len(t) for _, t, _ in pairs)
    return None


def cli_args(kw):
    a = []
    for k in ('lang', 'pack', 'dcls', 'extr'):
        if kw.get(k) is not None:
            a += ['--' + k, kw[k]]
    for k in ('seqs', 'nosp', 'unkn'):
        if kw.get(k):
            a.append('--' + k)
    return a


def run_shard(ctx):
    from vlib import docprop
    docprop.run_source('')     # scratch files (sed file, definition files) for \\LTinput & Co.
    os.chdir(sut.scratch_dir())
    rnd = random.Random(ctx.shard_seed)
    # (b) malformed inputs
    for i in range(ctx.n(50000, 250000)):
        src = soup.gen_soup(rnd)
        kw, ml, thresh = soup.draw_options(rnd)
        if i % 2:
            kw['pack'] = rnd.choice(['*', '*,cleveref'])
        run_one(ctx, src, kw, ml, thresh, 'soup')
        if ctx.too_many():
            return
    targets = soup.shape_targets()
    for i in range(ctx.n(15000, 75000)):
        head, args, name = rnd.choice(targets)
        src = next(soup.shapes_for(head, args, rnd=rnd, limit=1)) if len(args) > 0 else head + rnd.choice(soup.FOLLOW)
        if rnd.random() < 0.5:
            src = rnd.choice(['a ', 'Word\n\n', '']) + src
        kw, ml, thresh = soup.draw_options(rnd)
        kw['pack'] = '*,cleveref'
        run_one(ctx, src, kw, ml, thresh, 'shape')
    for i in range(ctx.n(6000, 25000)):
        src = soup.definition_shape(rnd)
        kw, ml, thresh = soup.draw_options(rnd)
        run_one(ctx, src, kw, ml, thresh, 'definition-shape')
    for i in range(ctx.n(24000, 100000)):
        src = soup.wrapped_shape(rnd, targets)
        kw, ml, thresh = soup.draw_options(rnd)
        kw['pack'] = '*,cleveref'
        run_one(ctx, src, kw, ml, thresh, 'construct-in-macro-body-at-end-of-text')
    if ctx.too_many():
        return

    # (a) well-formed documents, (c) injected faults - with random option vectors
    cli_pool = []

    def doc_case(doc):
        m = docgen.build(doc)
        src = m.source()
        r = random.Random(h64(src))
        kw, ml, thresh = soup.draw_options(r)
        if r.random() < 0.6:
            kw.update(pack='*', defs=docgen.DEFS)
        if len(cli_pool) < 40 and r.random() < 0.02:
            cli_pool.append((src, kw, ml))
        run_one_h(src, kw, ml, thresh, 'document')
        # (e) the same document cut right behind a macro call, a group or an environment delimiter:
        # whatever is produced by the last construct must still point into the (shorter) source
        body = len(docgen.PREAMBLE)
        cuts = [x.end() for x in CUT_RE.finditer(src, body)]
        for c in (r.sample(cuts, 2) if len(cuts) > 2 else cuts):
            run_one_h(src[:c], kw, ml, thresh, 'document-prefix')

    def run_one_h(src, kw, ml, thresh, gen):
        before = len(ctx.violations)
        run_one(ctx, src, kw, ml, thresh, gen)
        if len(ctx.violations) > before:
            v = ctx.violations.pop()
            ctx._kinds.discard(v['kind'])
            raise Violation(v['kind'], v['case'], v['detail'])

    from vlib import docprop
    docprop.run_source('')     # makes sure the scratch files (sed) exist
    hyp_run(ctx, docgen.document, doc_case, ctx.n(20000, 100000))

    from props import c08_errors

    def fault_case(case):
        m, info = c08_errors.build(case, {})
        src = m.source()
        r = random.Random(h64(src))
        kw, ml, thresh = soup.draw_options(r)
        if r.random() < 0.6:
            kw.update(pack='*', defs=docgen.DEFS)
        if len(cli_pool) < 80 and r.random() < 0.03:
            cli_pool.append((src, kw, ml))
        run_one_h(src, kw, ml, thresh, 'fault:' + info['kind'])
    hyp_run(ctx, c08_errors.case_s, fault_case, ctx.n(20000, 100000), seed=ctx.shard_seed + 500)

    if TIMEOUTS:
        ctx.error('filter exceeded 20 s on %d input(s), first: %r' % (len(TIMEOUTS), TIMEOUTS[0]))
    # (d) command line
    ncli = ctx.n(200, 750)
    while len(cli_pool) < ncli:
        kw, ml, thresh = soup.draw_options(rnd)
        cli_pool.append((soup.gen_soup(rnd), kw, ml))
    for src, kw, ml in cli_pool[:ncli]:
        if '\x00' in src:
            continue
        case = {'cli': True, 'src': src, 'args': cli_args(kw), 'mula': bool(ml)}
        with watchdog(150):
            v = cli_check(case)
        if v is not None:
            ctx.violation(v)
        nt = case.get('_chars', 0) > 0
        ctx.stats.case(key=('cli', src, case['args'], ml), nontrivial=nt,
                       classes=['cli:--mula' if ml else 'cli:--nums'],
                       sample={'cli_args': case['args'], 'mula': bool(ml), 'src': src[-200:]})
