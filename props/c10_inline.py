"""C10 - inline maths becomes one rotating placeholder with its punctuation, nothing else.

Each generated formula stands between two unique marker words; the text found
between the markers (in whichever language part they land) must be exactly
blank? placeholder punct? blank?, the placeholder being the next one of the
collection of the language in force (reference counter per language settings
object), and all generated characters must map inside the formula.
"""
import re

from hypothesis import strategies as st

from vlib import sut
from vlib.runner import Violation, hyp_run, sut_frame, watchdog

ID = 'C10'
LEVEL = 'exploration'
RULE = ('Hypothesis: documents of 1-16 inline formulas ($..$ and \\(..\\)) from a grammar (letters, digits, operators, relations, sub/superscripts, \\frac, \\sqrt, unknown maths macros with arguments, '
        'braces, comments and line breaks inside, maths space at start/end, final . , ; : optionally followed by maths space / \\label / \\nonumber), placed in running text, macro arguments, footnotes, items, '
        'table cells, and (multi-language runs) inside \\foreignlanguage / otherlanguage / after \\selectlanguage; main languages en, de, ru, fr(fallback); single- and multi-language mode. '
        'oracle: text between the two marker words of a formula == expected rendering exactly; rotation by reference counters per language collection; generated characters map inside the formula. '
        'non-trivial = at least 7 formulas in one language (wrap-around) or a formula inside an argument / footnote / foreign-language scope; distinct by source text')
RULE += ' Additions: runs of two maths spaces at either end of a formula; the negative thin space (ignored) between delimiter and maths space.'
ASSUMPTIONS = [
    'formulas that are empty or consist only of maths space are not generated (the statement speaks of formulas consisting of maths)',
    'unknown languages use the English collection and share its rotation (README: settings for en are the fall back)',
]
LEVEL_TEXT = ('Generated search with an exact reference rendering for every formula (placeholder identity incl. rotation per language, punctuation, surrounding blanks, positions).')
LEVEL_NOTE = 'Trusted: the 40-line reference (counter per language collection, punctuation rule, blank rule) written from the statement and README.'
TECHNIQUE = 'Hypothesis grammar-based formula/document generator + exact reference rendering, single- and multi-language'

COLL = {'en': ['B-B-B', 'C-C-C', 'D-D-D', 'E-E-E', 'F-F-F', 'G-G-G'],
        'de': ['B-B-B', 'C-C-C', 'D-D-D', 'E-E-E', 'F-F-F', 'G-G-G'],
        'ru': ['Б-Б-Б', 'В-В-В', 'Г-Г-Г', 'Д-Д-Д', 'Е-Е-Е', 'Ж-Ж-Ж']}
BABEL = {'english': 'en-GB', 'german': 'de-DE', 'russian': 'ru-RU', 'french': 'fr'}
MAIN = {'en': 'en', 'de': 'de', 'ru': 'ru', 'fr': 'fr', 'en-GB': 'en-GB', 'de-DE': 'de-DE'}
MSP = ['\\ ', '\\,', '~', '\\;', '\\quad ', '\\: ', '\\qquad ']

# several maths spaces in a row, and the negative thin space (ignored) next to the delimiter (seeded changes C10-G/H)
LEAD2 = ['\\,\\;', '\\!\\,', '\\!\\!~', '\\quad\\qquad ']
TRAIL2 = ['\\;\\;', '\\,~', '\\quad\\qquad ', '\\ \\ ', '\\;\\!', '\\ \\!', '~\\!\\!']
atom = st.sampled_from(['x', 'y', 'z', 'u', 'v', '1', '2', '\\alpha', '\\beta', 'xy', '10'])


def elem(child):
    return st.one_of(
        atom, atom,
        st.tuples(child, child).map(lambda t: '\\frac{%s}{%s}' % t),
        st.tuples(child, child).map(lambda t: '\\zzm{%s}{%s}' % t),
        st.tuples(atom, child).map(lambda t: '%s_{%s}' % t),
        st.tuples(atom, atom).map(lambda t: '%s^%s' % t),
        child.map(lambda t: '{%s}' % t),
        child.map(lambda t: '\\sqrt{%s}' % t),
        child.map(lambda t: '(%s)' % t),
        st.tuples(child, child).map(lambda t: '%s %s' % t),
    )


expr = st.recursive(atom, elem, max_leaves=5)
op = st.sampled_from(['+', '-', '=', '<', '>', '\\le ', '\\cdot ', '\\times ', '/', '\\to ', '\\ne ', ' = ', ' +\n', '%c\n+', ':'])
body = st.tuples(expr, st.lists(st.tuples(op, expr), max_size=3)).map(lambda t: t[0] + ''.join(o + e for o, e in t[1]))
formula = st.tuples(st.sampled_from(['$', '\\(']),
                    st.one_of(st.just(''), st.just(''), st.sampled_from(MSP), st.sampled_from(LEAD2)),
                    st.one_of(body, body, body, st.sampled_from(['=', '\\le', '+', '.', '\\to']),
                              body.map(lambda b: b + ', \\dots'), body.map(lambda b: b + '+\\ldots'), body.map(lambda b: b + ' \\cdots')),
                    st.sampled_from(['', '', '.', ',', ';', ':']),
                    st.sampled_from(['', '', '', '\\,', '\\quad ', '~', ' \\label{kk}', '\\nonumber', ' %c\n', '\\ ', '\n'] + TRAIL2))
CTX = ['text', 'text', 'head', 'arg', 'colorarg', 'foot', 'item', 'cell', 'foreign-ru', 'foreign-de', 'other-ru', 'other-de', 'foreign-fr', 'foreign-en']
block = st.tuples(st.lists(st.sampled_from(CTX), min_size=1, max_size=2), st.lists(formula, min_size=1, max_size=4))
sel = st.tuples(st.just('select'), st.sampled_from(['russian', 'german', 'english', 'french']))
doc_s = st.tuples(st.sampled_from(['en', 'de', 'ru', 'fr', 'en-GB']), st.booleans(), st.integers(0, 5),
                  st.lists(st.one_of(block, block, block, sel), min_size=1, max_size=8))


def settings_key(lang):
    k = lang[:2].lower()
    return k if k in COLL else 'en'


class R:
    def __init__(self):
        self.src = ''
        self.n = 0
        self.forms = []     # dicts: L, R, lo, hi, lead, trail, punct, lang(ml), ctx
        self.seen_ctx = set()

    def word(self):
        self.n += 1
        return 'W' + ''.join('abcdefghij'[int(d)] for d in '%03d' % self.n) + 'q'


def render(doc):
    main, ml, thresh, blocks = doc
    r = R()
    stack = [MAIN[main]]
    for b in blocks:
        if b[0] == 'select':
            r.src += '\\selectlanguage{%s}\n' % b[1]
            stack[-1] = BABEL[b[1]]
            continue
        ctxs, forms = b
        closers = []
        pushed = 0
        for c in ctxs:
            r.seen_ctx.add(c.split('-')[0])
            if c == 'text':
                pass
            elif c == 'arg':
                r.src += '\\zzbf{'
                closers.append('}')
            elif c == 'head':
                r.src += '\\section{'
                closers.append('}')
            elif c == 'colorarg':
                r.src += '\\textcolor{red}{'
                closers.append('}')
            elif c == 'foot':
                r.src += '\\footnote{'
                closers.append('}')
            elif c == 'item':
                r.src += '\\begin{itemize}\n\\item '
                closers.append('\n\\end{itemize}\n')
            elif c == 'cell':
                r.src += '\\begin{tabular}{cc} '
                closers.append(' \\end{tabular}')
            elif c.startswith('foreign-'):
                name = {'ru': 'russian', 'de': 'german', 'fr': 'french', 'en': 'english'}[c[8:]]
                r.src += '\\foreignlanguage{%s}{' % name
                closers.append('}')
                stack.append(BABEL[name])
                pushed += 1
            elif c.startswith('other-'):
                name = {'ru': 'russian', 'de': 'german'}[c[6:]]
                r.src += '\\begin{otherlanguage}{%s} ' % name
                closers.append(' \\end{otherlanguage}')
                stack.append(BABEL[name])
                pushed += 1
        for i, f in enumerate(forms):
            delim, lead, bd, punct, trail = f
            if bd in ('.',):
                punct = ''
            L = r.word()
            Rw = r.word()
            if 'cell' in ctxs and i:
                r.src += ' & '
            r.src += L + ' '
            lo = len(r.src)
            op_, cl = ('$', '$') if delim == '$' else ('\\(', '\\)')
            r.src += op_ + lead + bd + punct + trail + cl
            hi = len(r.src)
            r.src += ' ' + Rw + '\n'
            last = (bd + punct).rstrip()[-1]
            r.forms.append({'L': L, 'R': Rw, 'lo': lo, 'hi': hi, 'lead': bool(lead),
                            'trail': trail in ('\\,', '\\quad ', '~', '\\ ') or trail in TRAIL2,
                            'punct': last if last in '.,;:' else '', 'lang': stack[-1], 'ctx': list(ctxs)})
        for c in reversed(closers):
            r.src += c
        for _ in range(pushed):
            stack.pop()
        r.src += '\n'
    return r


def check(doc):
    main, ml, thresh, blocks = doc
    r = render(doc)
    src = r.src
    case = {'doc': doc, 'src': src}
    try:
        with watchdog(20):
            res, err = sut.tex2txt(src, ml=ml, thresh=thresh if ml else None, lang=MAIN[main], pack='*')
    except Exception as e:
        raise Violation('exception:' + sut_frame(e), case, repr(e))
    if err:
        raise Violation('diagnostic-on-well-formed-document', case, err)
    parts = sut.parts_of(res, ml)
    counters = {}
    per_lang = {}
    for f in r.forms:
        key = settings_key(f['lang'] if ml else MAIN[main])
        k = counters.get(key, 0)
        counters[key] = k + 1
        per_lang[key] = per_lang.get(key, 0) + 1
        ph = COLL[key][(k + 1) % 6]
        want = ' ' + (' ' if f['lead'] else '') + ph + f['punct'] + (' ' if f['trail'] else '') + ' '
        hit = None
        for lang, plain, cmap in parts:
            i = plain.find(f['L'])
            if i >= 0:
                j = plain.find(f['R'], i)
                if j >= 0:
                    hit = (lang, plain, cmap, i + len(f['L']), j)
                    break
        det = {'formula_source': src[f['lo']:f['hi']], 'expected_between_markers': want, 'language': f['lang'] if ml else main,
               'formula_number_in_language': k, 'context': f['ctx']}
        if hit is None:
            det['parts'] = [(p[0], p[1]) for p in parts]
            raise Violation('formula-markers-not-in-one-part', case, det)
        lang, plain, cmap, a, b = hit
        got = plain[a:b]
        if got != want:
            det['actual_between_markers'] = got
            phs = [x for c in COLL.values() for x in c]
            if any(p in got for p in phs) and got.replace(next(p for p in phs if p in got), ph, 1) == want:
                raise Violation('wrong-placeholder(rotation/collection)', case, det)
            raise Violation('formula-rendering', case, det)
        pos = cmap[a:b]
        inner = pos[1:-1]
        if pos[0] != f['lo'] or pos[-1] != f['hi'] + 1 or any(not (f['lo'] + 1 <= p <= f['hi']) for p in inner):
            det['positions'] = pos
            det['formula_span'] = [f['lo'] + 1, f['hi']]
            raise Violation('formula-position', case, det)
    nt = max(per_lang.values(), default=0) >= 7 or bool(r.seen_ctx - {'text', 'item', 'cell'})
    return r, nt, per_lang


def replay(case):
    from vlib.docprop import untuple
    try:
        check(untuple(case['doc']))
    except Violation as v:
        return v
    return None


def run_shard(ctx):
    def one(doc):
        r, nt, per_lang = check(doc)
        cl = ['ml' if doc[1] else 'single'] + ['ctx:' + c for c in sorted(r.seen_ctx)]
        if max(per_lang.values(), default=0) >= 7:
            cl.append('wrap-around')
        if len(per_lang) > 1:
            cl.append('two-collections')
        ctx.stats.case(key=r.src, nontrivial=nt, classes=cl, n=1,
                       sample={'src': r.src, 'lang': doc[0], 'ml': doc[1]})
        ctx.stats.extra['formulas'] = ctx.stats.extra.get('formulas', 0) + len(r.forms)
    hyp_run(ctx, doc_s, one, ctx.n(20000, 200000))
