"""C03 - prose is conserved, hidden text never leaks (annotated document generator)."""
from vlib import docprop

ID = 'C03'
LEVEL = 'exploration'
RULE = docprop.RULE_PREFIX + ('oracle: the non-blank character sequence of the output equals the reference sequence (main flow in source order, then each detached flow complete '
        'and in order of completion; duplicated arguments twice), no hidden word (comment, key, file name, option, skipped region, removed environment, maths source, unused argument) occurs. '
        'non-trivial = the document contains at least one hidden word AND a construct with an argument; distinct by source text')
ASSUMPTIONS = docprop.ASSUMPTIONS
LEVEL_TEXT = ('Generated search over compositions of the construct catalogue with an independent reference prediction of the exact output character sequence; '
              'any lost, duplicated, reordered or leaked character is a violation. Sampling, shrinking by Hypothesis.')
LEVEL_NOTE = 'Trusted: the renderer/annotation code (docgen.py) that predicts the output; constructs outside its catalogue are not covered.'
TECHNIQUE = 'Hypothesis tree-structured document generator + reference model of the expected output sequence'


def judge(m, v, case):
    if v.seq is not None:
        return 'sequence-differs', v.seq
    if v.leak:
        return 'hidden-text-leaks', v.leak
    return None


def nontrivial(m, v):
    return bool(m.hidden) and bool(m.features & {'pass', 'detached', 'heading', 'usermacro', 'gen', 'vanish'})


def classes(m, v):
    return sorted(m.features & {'detached', 'duplicating-macro', 'removed-env', 'skip-region', 'usermacro', 'glossary', 'table', 'list', 'theorem'})


run_shard, replay = docprop.make(ID, judge, nontrivial, classes, quick=40000, thorough=333333)
