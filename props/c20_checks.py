"""C20 - the shell's own checks (--single-letters, --equation-punctuation).

Oracles: reference scans written from the statement / README:
 * single letters: isolated letter = letter whose neighbours are not word
   characters; every message has length 1 at such a position, none twice;
   lower bound: every isolated letter not covered by ANY occurrence of an accepted
   pattern is flagged; upper bound: a letter covered by an occurrence that
   overlaps no other occurrence is not flagged (the two readings of "covered"
   differ only for overlapping occurrences; only the unambiguous part is asserted).
 * equation punctuation: exact reference scan of the README rule.
 * every message: plain[offset:offset+length] are the offending characters and
   context.text[context.offset:+length] shows the same characters.
In-process on yalafi.shell.checks, plus an end-to-end sample through
`python -m yalafi.shell` with a fake proofreader that reports nothing.
"""
import json
import os
import re
import types

from hypothesis import strategies as st

from vlib import sut
from vlib.runner import Violation, hyp_run, sut_frame, watchdog

ID = 'C20'
LEVEL = 'exploration'
RULE = ('Hypothesis: plain texts over letters (ASCII, ä, Б, б), digits, _, punctuation, placeholders of the display and inline collections (en/ru), '
        '(narrow) no-break spaces, tabs and line breaks; accept lists with multi-character patterns, ~, \\, and empty entries; modes displayed/inline/all and abbreviations; '
        'messages compared with reference scans. non-trivial = (single letters) an isolated letter next to a digit/underscore/no-break space or inside an accepted '
        'multi-character pattern, or (equation punctuation) a placeholder followed by punctuation and an upper-case word, or by another placeholder; distinct by (text, option)')
ASSUMPTIONS = [
    'word character = alphanumeric or underscore; letters = word characters other than ASCII digits and underscore (alphabet contains no other digits)',
    'placeholders are not generated directly adjacent to a hyphen (overlapping placeholder occurrences would make "the placeholder" ambiguous)',
    'invalid mode names for --equation-punctuation are outside the property',
]
LEVEL_TEXT = ('Generated search with reference-scan oracles for both checks (exact for equation punctuation, two-sided bounds for single letters), message geometry '
              '(offset/length/context) asserted for every message; a sample of end-to-end shell runs ties the option plumbing (placeholder alternatives, trailing ||) to the same oracle.')
LEVEL_NOTE = 'Trusted: the two reference scans (about 60 lines). Sampling only.'
TECHNIQUE = 'Hypothesis generated texts and option values, differential against reference scans; subprocess sample with fake proofreader'

NB = '\xa0'
NNB = '\u202f'
DISP = {'en': ['U-U-U', 'V-V-V', 'W-W-W', 'X-X-X', 'Y-Y-Y', 'Z-Z-Z'],
        'ru': ['Ц-Ц-Ц', 'Ч-Ч-Ч', 'Ш-Ш-Ш', 'Ы-Ы-Ы', 'Э-Э-Э', 'Ю-Ю-Ю']}
INL = {'en': ['B-B-B', 'C-C-C', 'D-D-D', 'E-E-E', 'F-F-F', 'G-G-G'],
       'ru': ['Б-Б-Б', 'В-В-В', 'Г-Г-Г', 'Д-Д-Д', 'Е-Е-Е', 'Ж-Ж-Ж']}


def isw(c):
    return c.isalnum() or c == '_'


def isletter(c):
    return isw(c) and c not in '0123456789_'


# ------------------------------------------------------------ single letters

SL_ALPHA = list('abIx') + ['ä', 'Б', '1', '_', ' ', ' ', '\n', '.', ',', ';', ':', '-', NB, NNB, '(',
                           'e.g.', 'i.e.', 'U-U-U', 'V-V-V', 'B-B-B', 'The', 'word', '\t', 'a', 'I', 'z.' + NNB + 'B.', 'a' + NB + 'b', 'b' + NNB + 'c', 'x.']
sl_text = st.lists(st.sampled_from(SL_ALPHA), max_size=25).map(''.join)
sl_acc = st.lists(st.sampled_from(['a', 'I', 'e.g.', 'i.e.', 'x', 'A', 'ä', 'a~b', 'b\\,c', '', 'U-U-U', 'V-V-V',
                                   'a b', 'b a', '.', 'x.', 'z.\\,B.', 'I.', '(a', 'a.', 'b.a',
                                   'a~b|a', 'i.e.|i', 'e.g.|e', 'x.|x', 'b\\,c|b', 'z.\\,B.|z']), max_size=4).map('|'.join)


def ref_isolated(t):
    return [i for i, c in enumerate(t) if isletter(c) and (i == 0 or not isw(t[i - 1]))
            and (i + 1 == len(t) or not isw(t[i + 1]))]


def occurrences(t, pat):
    p = pat.replace('~', NB).replace('\\,', NNB)
    res = []
    for i in range(len(t)):
        if t.startswith(p, i):
            j = i + len(p)
            if p[0].isalpha() and i > 0 and isw(t[i - 1]):
                continue
            if p[-1].isalpha() and j < len(t) and isw(t[j]):
                continue
            res.append((i, j))
    return res


def ctx_ok(t, m):
    c = m['context']
    want = t[m['offset']:m['offset'] + m['length']].replace('\n', ' ').replace('\t', ' ')
    return (c['length'] == m['length'] and c['text'][c['offset']:c['offset'] + c['length']] == want)


def check_single(t, acc):
    case = {'mode': 'single', 'text': t, 'accept': acc}
    ns = types.SimpleNamespace(single_letters=acc, equation_punctuation=None)
    try:
        with watchdog(20):
            ms = sut_checks().create_single_letter_matches(t, ns)
    except Exception as e:
        raise Violation('exception:' + sut_frame(e), case, repr(e))
    iso = ref_isolated(t)
    occ = []
    for p in [a for a in acc.split('|') if a]:
        occ += occurrences(t, p)
    covered_any = set()
    for i, j in occ:
        covered_any.update(range(i, j))
    covered_sure = set()
    for i, j in occ:
        if not any((a, b) != (i, j) and a < j and i < b for a, b in occ):
            covered_sure.update(range(i, j))
    # exact model: the text is scanned from the left; at each place the first listed pattern that occurs there is
    # taken and the scan continues behind it (patterns "given as list": order matters only for patterns sharing a start)
    pats = [a for a in acc.split('|') if a]
    covered_exact = set()
    i = 0
    while i < len(t) and pats:
        hit = None
        for p in pats:
            for (a, b) in occurrences(t, p):
                if a == i:
                    hit = b
                    break
            if hit:
                break
        if hit:
            covered_exact.update(range(i, hit))
            i = hit
        else:
            i += 1
    flagged = [m['offset'] for m in ms]
    if sorted(flagged) != [k for k in iso if k not in covered_exact]:
        raise Violation('flagged-letters-differ-from-accept-list-model', case,
                        {'flagged': sorted(flagged), 'expected': [k for k in iso if k not in covered_exact]})
    if len(set(flagged)) != len(flagged):
        raise Violation('letter-marked-twice', case, flagged)
    for m in ms:
        if m['length'] != 1 or m['offset'] not in iso:
            raise Violation('message-not-on-isolated-letter', case, m)
        if not ctx_ok(t, m):
            raise Violation('context-marks-other-characters', case, m)
        if m['offset'] in covered_sure:
            raise Violation('accepted-letter-flagged', case, m)
    for i in iso:
        if i not in covered_any and i not in flagged:
            raise Violation('isolated-letter-missed', case, {'offset': i, 'flagged': flagged})
    odd = '0123456789_' + NB + NNB
    nt = False
    for i, c in enumerate(t):
        if isletter(c) and (i == 0 or not isletter(t[i - 1])) and (i + 1 == len(t) or not isletter(t[i + 1])):
            if (i > 0 and t[i - 1] in odd) or (i + 1 < len(t) and t[i + 1] in odd):
                nt = True
    if any(j - i > 1 and any(k in iso for k in range(i, j)) for i, j in occ):
        nt = True
    return nt, len(ms)


# ------------------------------------------------------ equation punctuation

def eq_alpha(lang):
    return (DISP[lang][:3] + INL[lang][:3] + DISP[lang][:2] + INL[lang][:2]
            + ['word', 'Word', 'a', 'A', 'б', 'Б', 'the', 'x1', '1', '_', '.', '.', ',', ';', ':', ' ', ' ', ' ', '\n', '\t', NB, '(', '-', 'é', 'É'])


def eq_text(lang):
    return st.lists(st.sampled_from(eq_alpha(lang)), max_size=16).map(''.join)


def placeholder_at(t, i, repls):
    """length of a placeholder (with word boundaries) starting at i, or 0"""
    for r in repls:
        if t.startswith(r, i):
            j = i + len(r)
            if i > 0 and isw(t[i - 1]):
                continue
            if j < len(t) and isw(t[j]):
                continue
            return len(r)
    return 0


def ref_equation(t, repls):
    """list of (offset, max_end) of placeholders that must be flagged"""
    res = []
    i = 0
    n = len(t)
    while i < n:
        ln = placeholder_at(t, i, repls)
        if not ln:
            i += 1
            continue
        j = i + ln
        k = j
        while k < n and t[k].isspace():
            k += 1
        ok = False
        end = k
        if k < n and t[k] == '.':
            ok = True
        else:
            if k < n and t[k] in ',;:':
                k += 1
                while k < n and t[k].isspace():
                    k += 1
            if placeholder_at(t, k, repls):
                ok = True
            else:
                e = k
                while e < n and isletter(t[e]):
                    e += 1
                if e > k:
                    end = e
                    ok = t[k].islower()
        if ok:
            i = j
        else:
            res.append((i, end))
            # the scan of the implementation continues behind what it consumed;
            # a placeholder cannot start inside white space / punctuation / a letter run
            i = max(j, end)
    return res


def check_equation(t, mode, lang):
    repls = {'d': DISP[lang], 'i': INL[lang], 'a': DISP[lang] + INL[lang]}[mode[0]]
    case = {'mode': 'equation', 'text': t, 'eqmode': mode, 'lang': lang}
    ns = types.SimpleNamespace(single_letters=None, equation_punctuation=mode)
    try:
        with watchdog(20):
            ms = sut_checks().create_equation_punct_messages(
                t, ns, '|'.join(DISP[lang]), '|'.join(INL[lang]), '|'.join(DISP[lang] + INL[lang]))
    except Exception as e:
        raise Violation('exception:' + sut_frame(e), case, repr(e))
    exp = ref_equation(t, repls)
    act = [(m['offset'], m['offset'] + m['length']) for m in ms]
    if [a for a, _ in act] != [a for a, _ in exp]:
        raise Violation('flagged-placeholders-differ', case, {'expected': exp, 'actual': act})
    for m, (off, mx) in zip(ms, exp):
        ln = placeholder_at(t, off, repls)
        if not (off + ln <= m['offset'] + m['length'] <= mx):
            raise Violation('message-span-wrong', case, {'message': m, 'placeholder_end': off + ln, 'max_end': mx})
        if m['length'] <= 40 and not ctx_ok(t, m):
            raise Violation('context-marks-other-characters', case, m)
    nt = False
    for i in range(len(t)):
        ln = placeholder_at(t, i, repls)
        if ln:
            rest = t[i + ln:].lstrip()
            if rest[:1] in tuple(',;:') and rest[1:].lstrip()[:1].isupper():
                nt = True
            if rest[:1] in tuple(',;:') and placeholder_at(t, len(t) - len(rest[1:].lstrip()), repls):
                nt = True
    return nt, len(ms)


_checks = None


def sut_checks():
    global _checks
    if _checks is None:
        import importlib
        _checks = importlib.import_module('yalafi.shell.checks')
        if not os.path.realpath(_checks.__file__).startswith(sut.REPO + os.sep):
            raise sut.HarnessError('checks module from wrong tree')
    return _checks


def fix_hyphen(t, lang):
    # keep placeholders away from a directly adjacent hyphen
    for r in DISP[lang] + INL[lang]:
        t = t.replace(r + '-', r + ' -').replace('-' + r, '- ' + r)
    return t


def replay(case):
    try:
        if case['mode'] == 'single':
            check_single(case['text'], case['accept'])
        elif case['mode'] == 'equation':
            check_equation(case['text'], case['eqmode'], case['lang'])
        else:
            from props import c20_shell
            c20_shell.check(case)
    except Violation as v:
        return v
    return None


def run_shard(ctx):
    def single(args):
        t, acc = args
        nt, k = check_single(t, acc)
        ctx.stats.case(key=('s', t, acc), nontrivial=nt,
                       classes=['single-letters'] + (['single:messages'] if k else []),
                       sample={'text': t, 'accept': acc, 'messages': k})
    hyp_run(ctx, st.tuples(sl_text, sl_acc), single, ctx.n(50000, 500000))

    def equation(args):
        lang, mode, data = args
        t = fix_hyphen(data.draw(eq_text(lang)), lang)
        nt, k = check_equation(t, mode, lang)
        ctx.stats.case(key=('e', t, mode), nontrivial=nt,
                       classes=['equation-punctuation'] + (['equation:messages'] if k else []),
                       sample={'text': t, 'mode': mode, 'lang': lang, 'messages': k})
    hyp_run(ctx, st.tuples(st.sampled_from(['en', 'en', 'ru']),
                           st.sampled_from(['displayed', 'inline', 'all', 'd', 'disp', 'i', 'a', 'inl']), st.data()),
            equation, ctx.n(50000, 500000), seed=ctx.shard_seed + 500)

    try:
        from props import c20_shell
    except ImportError:
        return
    c20_shell.run(ctx)
