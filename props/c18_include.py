"""C18 (b): inclusion tracking of `python -m yalafi.shell --include` against a reference work list."""
import itertools
import os
import random
import re

from vlib import sut
from vlib.runner import Violation, watchdog

FILES = ['a', 'b.x', 'ab.x']      # names with a dot inside, one name is the tail of another
ENTRY_LISTS = [[], ['a'], ['b.x'], ['ab.x'], ['b.x.tex'], ['ab.x.tex'], ['a', 'b.x'], ['b.x', 'a'], ['b.x', 'ab.x'], ['ab.x', 'b.x'], ['b.x', 'b.x'], ['ab.x', 'a.tex'], ['a', 'a']]
ENTRY_LISTS_2 = [e for e in ENTRY_LISTS if not any(x.startswith('ab') for x in e)]
ROOTS = [['a.tex'], ['a.tex', 'b.x.tex'], ['a.tex', 'a.tex'], ['b.x.tex', 'a.tex']]
SKIPS = [None, 'b\\.x\\.tex', '.*b\\.x\\.tex', 'a.tex']


def reference(roots, graph, skip):
    def skipped(f):
        return skip is not None and re.fullmatch(skip, f) is not None
    order = []
    queue = list(roots)
    while queue:
        f = queue.pop(0)
        if f in order or skipped(f):
            continue
        order.append(f)
        for t in graph[f[:-4]]:
            t2 = t if t.endswith('.tex') else t + '.tex'
            if t2 not in order and t2 not in queue and not skipped(t2):
                queue.append(t2)
    return order


def run_graph(graph, roots, skip, workdir):
    case = {'graph': graph, 'roots': roots, 'skip': skip}
    for i, f in enumerate(FILES):
        macs = ['\\input{%s}' % t if (i + k) % 2 == 0 else '\\include{%s}' % t for k, t in enumerate(graph.get(f, []))]
        txt = 'Text of file %s.\n%% \\input{ab.x}\n' % f + ' and '.join(macs) + '\nEnd of %s \\verb|\\input{b.x}|.\n' % f \
            + ('\\begin{lstlisting}\n\\input{ghostl}\n\\end{lstlisting}\n%%% LT-SKIP-BEGIN\n\\include{ghosts}\n%%% LT-SKIP-END\n'
               '\\begin{tikzpicture}\\input{ghostt}\\end{tikzpicture}\n' if i % 2 == 0 else '')     # shown, not executed (seeded change C18-H)
        with open(os.path.join(workdir, f + '.tex'), 'w') as fh:
            fh.write(txt)
    args = ['--include'] + (['--skip', skip] if skip else []) + roots
    try:
        with watchdog(60):
            rc, out, err = sut.run_shell(args, workdir, plan={'mode': 'flag_words', 'words': []}, timeout=45)
    except Exception as e:
        return Violation('inclusion-tracking-does-not-terminate' if 'Timeout' in type(e).__name__ else 'shell-failed', case, repr(e))
    err = err.decode('utf-8', 'replace')
    want = reference(roots, {f: graph.get(f, []) for f in FILES}, skip)
    det = {'expected_order': want, 'stderr': err[-800:], 'status': rc}
    if rc != 0 or 'Traceback' in err:
        return Violation('shell-failed', case, det)
    # warnings of the filter (lines starting with ***) may be interleaved with the progress messages
    err_clean = re.sub(r'^\*\*\* .*\n', '', re.sub(r'(\.\.\. )(?:\*\*\* .*\n)+', r'\1', err), flags=re.M)
    m = re.search(r'=== checking for file inclusions \.\.\. (.*)\n', err_clean)
    listed = [x for x in m.group(1).split(', ') if x] if m else None
    progress = re.findall(r'^=== (\S+\.tex)$', err, re.M)
    if listed != want:
        return Violation('inclusion-list-differs', case, dict(det, listed=listed))
    if progress != want:
        return Violation('checked-files-differ', case, dict(det, checked=progress))
    return None


def features(graph, roots):
    cyc = False
    for f in FILES:
        seen, todo = set(), [f]
        while todo:
            x = todo.pop()
            for t in graph.get(x, []):
                t = t[:-4] if t.endswith('.tex') else t
                if t == f:
                    cyc = True
                if t not in seen:
                    seen.add(t)
                    todo.append(t)
    dup = any(len(set(t[:-4] if t.endswith('.tex') else t for t in v)) < len(v) for v in graph.values()) or len(set(roots)) < len(roots)
    return cyc, dup


def replay(case):
    d = os.path.join(sut.scratch_dir(), 'c18r')
    os.makedirs(d, exist_ok=True)
    return run_graph(case['graph'], case['roots'], case['skip'], d)


def run(ctx):
    d = os.path.join(sut.scratch_dir(), 'c18')
    os.makedirs(d, exist_ok=True)
    os.chdir(d)
    cases = []
    for la, lb in itertools.product(ENTRY_LISTS_2, repeat=2):
        for roots in ROOTS:
            for skip in SKIPS:
                cases.append(({'a': la, 'b.x': lb, 'ab.x': []}, roots, skip))
    if ctx.tier == 'thorough':
        cases = []
        for la, lb, lc in itertools.product(ENTRY_LISTS, repeat=3):
            for roots in ROOTS:
                for skip in SKIPS:
                    cases.append(({'a': la, 'b.x': lb, 'ab.x': lc}, roots, skip))
        ctx.stats.extra['inclusion_graph_space_complete'] = True
    else:
        rnd = random.Random(ctx.seed)
        for _ in range(420):
            cases.append(({'a': rnd.choice(ENTRY_LISTS), 'b.x': rnd.choice(ENTRY_LISTS), 'ab.x': rnd.choice(ENTRY_LISTS)}, rnd.choice(ROOTS), rnd.choice(SKIPS)))
    for i, (graph, roots, skip) in enumerate(cases):
        if i % ctx.nshards != ctx.shard:
            continue
        v = run_graph(graph, roots, skip, d)
        if v is not None:
            ctx.violation(v)
            if ctx.too_many():
                return
        cyc, dup = features(graph, roots)
        ctx.stats.case(key=('g', sorted(graph.items()), roots, skip), nontrivial=cyc or dup,
                       classes=['inclusion-graph'] + (['graph:cycle'] if cyc else []) + (['graph:duplicate'] if dup else []) + (['graph:skip'] if skip else []),
                       sample={'graph': graph, 'roots': roots, 'skip': skip})
    ctx.stats.extra['inclusion_graphs'] = ctx.stats.extra.get('inclusion_graphs', 0) + len(cases) // ctx.nshards
