"""C15 - any proofreader answer gives an in-file report or a clean error, no traceback.

Fault enumeration on the proofreader answer: from a valid answer on a generated
document: every single-field deletion, every type change per field, value
perturbations of the numeric fields, byte truncations of the UTF-8 answer,
degenerate answers, all in-range (offset, length) pairs on a short text; each
through real `python -m yalafi.shell` runs in the modes plain/json/xml/xml-b/html.
"""
import copy
import json
import os
import random
import re
import xml.etree.ElementTree as ET

from vlib import fakelt, htmlparse, sut
from vlib.runner import Violation, watchdog

ID = 'C15'
LEVEL = 'fault_enumeration'
RULE = ('for seeded documents (prose with non-ASCII text, macros, several lines) a valid answer with 2-3 matches is built, then mutated: all single-field deletions (every path of the JSON tree), '
        'type changes per field to {null,true,int,float,string,list,object}, string values with line breaks / control characters / markup / per-cent signs / backslash sequences / a lone surrogate, perturbations of offset/length/context offset/context length to {-1,0,1,len-1,len,len+1,len+2,len+3,10^6,-10^6,2^31,2^62,-2^62,10^30}, byte truncations '
        '(all positions inside multi-byte characters, every k-th elsewhere), degenerate answers (empty, [], {}, null, text, matches not a list, match not an object), all in-range (offset,length) pairs on a short text, answers with a long multi-line match followed by short ones inside it; '
        'modes rotate over plain/json/xml/xml-b/html (quick) or all five (thorough). oracle: exit status 0 or 1; no "Traceback" on stderr; status 1 => the shell\'s own diagnostic; '
        'status 0 => every reported location inside the LaTeX file. '
        'non-trivial = the answer differs from a valid one in exactly one place and still parses as JSON, or is cut inside a multi-byte character; distinct by (document, mutated answer, mode)')
ASSUMPTIONS = [
    'numeric perturbations are bounded by 10^6 (larger values only exhaust memory when the caret line is printed)',
    'the proofreader is the fake executable answering with prepared bytes',
]
LEVEL_TEXT = ('Systematic fault enumeration on the answer (all single-field deletions / type changes / truncation classes of a valid answer) through real shell processes; '
              'the oracle is the statement itself: clean exit status, no traceback, own diagnostic on failure, in-file locations on success.')
LEVEL_NOTE = 'Enumeration is complete for single mutations of the generated valid answers only (exhaustive within that bound in the thorough tier); documents are sampled.'
TECHNIQUE = 'fault injection into proofreader answers (single-field deletion / type change / value perturbation / byte truncation enumeration), subprocess oracle'
EXHAUSTIVE = {'quick': False, 'thorough': False}

MODES = ['plain', 'json', 'xml', 'xml-b', 'html']
DOCS = [
    'Größe Wabcq \\textbf{übér} Wabdq.\nZweite Zeile mit $x$ und Wabeq\\footnote{Fußnote Wabfq}.\n\nDritter Absatz Wabgq.\n',
    'Wabcq\n',
    '\\section{Titel Wabcq}\nText Wabdq --- noch Wabeq \\cite{x}\n\\begin{itemize}\\item Wabfq\n\\end{itemize}\n',
    'a Wabcq b\n',
    'Zeile eins Wabcq\nZeile zwei Wabdq\nZeile drei\nZeile vier Wabeq\nZeile f\u00fcnf\nZeile sechs\nZeile sieben\nZeile acht\nZeile neun\n',
    # removed lines between two short text lines: a match at the start of the second line has its preceding plain character far away
    # (every offset / length pair inside the text, all report formats - round-5 seed C15-I)
    'Ab\n% c\n\\label{k}\nWabcq\\footnote{e} d\n',
]
TYPES = [None, True, 7, 1.5, 'str', [], {}]
PERT = [-1, 0, 1, 'len-1', 'len', 'len+1', 'len+2', 'len+3', 10 ** 6, -10 ** 6, 2 ** 31, 2 ** 62, -2 ** 62, 10 ** 30]


def paths(obj, prefix=()):
    out = []
    if isinstance(obj, dict):
        for k in obj:
            out.append(prefix + (k,))
            out += paths(obj[k], prefix + (k,))
    elif isinstance(obj, list):
        for i, v in enumerate(obj):
            out.append(prefix + (i,))
            out += paths(v, prefix + (i,))
    return out


def get_parent(obj, path):
    for k in path[:-1]:
        obj = obj[k]
    return obj


def valid_answer(plain):
    words = re.findall(r'W[a-j]{3}q', plain)[:3]
    ms = []
    for k, w in enumerate(words):
        i = plain.find(w)
        ms.append(fakelt.make_match(plain, i, len(w), k + 1))
    return {'software': {'name': 'FakeLT'}, 'language': {'code': 'x'}, 'matches': ms}


def mutations(plain, tier, rnd):
    """yield (label, bytes, single_place)"""
    base = valid_answer(plain)
    n = len(plain)
    ps = paths(base)
    for p in ps:
        a = copy.deepcopy(base)
        par = get_parent(a, p)
        if isinstance(par, list):
            par.pop(p[-1])
        else:
            del par[p[-1]]
        yield 'delete:' + '/'.join(map(str, p)), json.dumps(a, ensure_ascii=False).encode('utf-8'), True
    for p in ps:
        for t in TYPES:
            a = copy.deepcopy(base)
            par = get_parent(a, p)
            if type(par[p[-1]]) is type(t) and not isinstance(t, (int, float)):
                continue
            par[p[-1]] = copy.deepcopy(t)
            yield 'type:%s=%r' % ('/'.join(map(str, p)), t), json.dumps(a, ensure_ascii=False).encode('utf-8'), True
    for p in ps:
        a = copy.deepcopy(base)
        par = get_parent(a, p)
        if type(par[p[-1]]) is int:
            for val, lab in ((float(par[p[-1]]), 'integral-float'), (str(par[p[-1]]), 'numeric-string'), (bool(par[p[-1]]), 'bool')):
                a = copy.deepcopy(base)
                get_parent(a, p)[p[-1]] = val
                yield 'type:%s=%s' % ('/'.join(map(str, p)), lab), json.dumps(a, ensure_ascii=False).encode('utf-8'), True
    # string values a proofreader may legitimately send: line breaks, tabs, markup, a lone surrogate (valid JSON escape)
    for p in ps:
        if isinstance(get_parent(base, p)[p[-1]], str):
            for val, lab in (('line one\nline two', 'newline'), ('\ud800x', 'lone-surrogate'), ('a\tb\r\nc', 'control-characters'), ('"><b>&', 'markup'),
                             ('50% of it, 100%s %(x)d %%', 'percent-signs'), ('C:\\dots \\1 \\g<1> \\emph{x}', 'backslashes')):
                a = copy.deepcopy(base)
                get_parent(a, p)[p[-1]] = val
                yield 'string:%s=%s' % ('/'.join(map(str, p)), lab), json.dumps(a, ensure_ascii=(lab == 'lone-surrogate')).encode('utf-8', 'surrogatepass'), True
    for mi in range(len(base['matches'])):
        for field in (('offset',), ('length',), ('context', 'offset'), ('context', 'length')):
            for v in PERT:
                a = copy.deepcopy(base)
                tgt = a['matches'][mi]
                for k in field[:-1]:
                    tgt = tgt[k]
                ref = n if field[0] in ('offset', 'length') else len(a['matches'][mi]['context']['text'])
                val = {'len-1': ref - 1, 'len': ref, 'len+1': ref + 1, 'len+2': ref + 2, 'len+3': ref + 3}.get(v, v)
                tgt[field[-1]] = val
                yield 'value:m%d.%s=%s' % (mi, '.'.join(field), v), json.dumps(a, ensure_ascii=False).encode('utf-8'), True
    raw = json.dumps(base, ensure_ascii=False).encode('utf-8')
    step = 37 if tier == 'quick' else 5
    for i in range(len(raw)):
        inside = i < len(raw) and (raw[i] & 0xC0) == 0x80
        if inside or i % step == 0:
            yield ('truncate-inside-multibyte:%d' if inside else 'truncate:%d') % i, raw[:i], inside
    for lab, b in [('empty', b''), ('list', b'[]'), ('object', b'{}'), ('null', b'null'), ('text', b'hello'), ('matches-null', b'{"matches": null}'),
                   ('matches-string', b'{"matches": "x"}'), ('match-not-object', b'{"matches": [1, "a", null]}'), ('matches-empty', b'{"matches": []}'),
                   ('invalid-utf8', b'{"matches": [\xff\xfe]}'), ('bom', b'\xef\xbb\xbf{"matches": []}'), ('nan', b'{"matches": [{"offset": NaN, "length": 1}]}'),
                   ('huge-int', b'{"matches": [{"offset": 1e400, "length": 1}]}'), ('nested', b'{"matches": [[[[]]]]}')]:
        yield 'degenerate:' + lab, b, False
    # several matches at once: a long (multi-line) one followed by short ones inside / behind it
    lines = [i for i, ch in enumerate(plain) if ch == '\n']
    if len(lines) >= 2 and base['matches']:
        m0 = base['matches'][0]
        k = 0
        for o1 in (0, 2, lines[0] - 1):
            for l1 in (lines[-1] - o1, lines[1] - o1 + 2, n - o1):
                for o2 in (o1 + 1, lines[0] + 1, lines[1] + 1):
                    for l2 in (1, 3):
                        if 0 <= o1 and l1 > 0 and o1 + l1 <= n and 0 <= o2 and o2 + l2 <= n:
                            k += 1
                            a = {'matches': [dict(copy.deepcopy(m0), offset=o1, length=l1), dict(copy.deepcopy(m0), offset=o2, length=l2),
                                             dict(copy.deepcopy(m0), offset=min(o2 + 1, n - 1), length=1)]}
                            yield 'multi:%d+%d,%d+%d' % (o1, l1, o2, l2), json.dumps(a, ensure_ascii=False).encode('utf-8'), False
    if n <= 18:
        m0 = base['matches'][0] if base['matches'] else fakelt.make_match(plain, 0, 1, 1)
        for o in range(n):
            for ln in range(0, n - o + 1):
                a = {'matches': [dict(copy.deepcopy(m0), offset=o, length=ln)]}
                yield 'in-range:%d+%d' % (o, ln), json.dumps(a, ensure_ascii=False).encode('utf-8'), True


def locations_ok(mode, out, tex):
    """None or description of a location outside the file"""
    n = len(tex)
    lines = tex.split('\n')
    if mode == 'plain':
        for a, b in re.findall(r'^\d+\.\) Line (\d+), column (\d+), Rule ID:', out, re.M):
            lin, col = int(a), int(b)
            if not (1 <= lin <= len(lines)) or not (1 <= col <= len(lines[lin - 1]) + 1):
                return 'line %d column %d' % (lin, col)
    elif mode == 'json':
        for m in json.loads(out)['matches']:
            o, ln = m['offset'], m['length']
            if not (0 <= o < n) or o + max(ln, 0) > n:
                return 'offset %r length %r (file has %d characters)' % (o, ln, n)
            p = m.get('priv', {})
            if not (0 <= p.get('fromy', 0) < len(lines)) or not (0 <= p.get('toy', 0) < len(lines)):
                return 'priv %r' % (p,)
    elif mode in ('xml', 'xml-b'):
        for el in ET.fromstring(out).findall('error'):
            fy, fx, ty, tx = (int(el.get(k)) for k in ('fromy', 'fromx', 'toy', 'tox'))
            if not (0 <= fy < len(lines)) or not (0 <= ty < len(lines)):
                return 'fromy %d toy %d' % (fy, ty)
            lf = lines[fy].encode('utf-8') if mode == 'xml-b' else lines[fy]
            lt = lines[ty].encode('utf-8') if mode == 'xml-b' else lines[ty]
            if not (0 <= fx <= len(lf)) or not (0 <= tx <= len(lt) + 1):
                return 'fromx %d tox %d' % (fx, tx)
    elif mode == 'html':
        rep = htmlparse.parse(out)
        for t in rep.tables:
            for num, segs in t['rows']:
                num = num.replace('\xa0', '').strip()
                if num and (not num.isdigit() or not (1 <= int(num) <= len(lines))):
                    return 'row number %r' % num
    return None


def verdict(doc, answer, mode, workdir, label=''):
    case = {'doc': doc, 'answer_hex': answer.hex(), 'mode': mode, 'mutation': label}
    with open(os.path.join(workdir, 't.tex'), 'w', encoding='utf-8', newline='') as f:
        f.write(doc)
    with open(os.path.join(workdir, 'answer.bin'), 'wb') as f:
        f.write(answer)
    with watchdog(150):
        ctxopt = ['--context', '0'] if label.startswith('multi:') else []
        if mode == 'html':
            ctxopt.append('--link')     # links to rule descriptions are part of the report as well
        rc, out, err = sut.run_shell(['--output', mode, '--language', 'de'] + ctxopt + ['t.tex'], workdir,
                                     plan={'mode': 'raw', 'file': os.path.join(workdir, 'answer.bin')})
    err = err.decode('utf-8', 'replace')
    det = {'status': rc, 'stderr': err[-1500:], 'answer': answer.decode('utf-8', 'replace')[:600]}
    if 'Traceback (most recent call last)' in err:
        last = err.strip().splitlines()[-1]
        return Violation('traceback:' + last.split(':')[0], case, det)
    if rc not in (0, 1):
        return Violation('exit-status-%d' % rc, case, det)
    if rc == 1:
        if not re.search(r'^\*\*\* .*(internal error|problem)', err, re.M):
            return Violation('failure-without-own-diagnostic', case, det)
        return None
    try:
        bad = locations_ok(mode, out.decode('utf-8'), doc)
    except Exception as e:
        return Violation('report-not-parseable', case, dict(det, error=repr(e), output=out.decode('utf-8', 'replace')[:800]))
    if bad:
        return Violation('location-outside-file', case, dict(det, location=bad, output=out.decode('utf-8', 'replace')[:800]))
    return None


def replay(case):
    d = os.path.join(sut.scratch_dir(), 'c15r')
    os.makedirs(d, exist_ok=True)
    return verdict(case['doc'], bytes.fromhex(case['answer_hex']), case['mode'], d, case.get('mutation', ''))


def run_shard(ctx):
    d = os.path.join(sut.scratch_dir(), 'c15')
    os.makedirs(d, exist_ok=True)
    os.chdir(d)
    rnd = random.Random(ctx.seed)
    quick = ctx.tier == 'quick'
    idx = 0
    budget = ctx.n(6000, 60000)
    done = 0
    docs = DOCS
    for di, doc in enumerate(docs):
        (plain, cmap), _ = sut.tex2txt(doc, lang='de', pack='*')
        muts = list(mutations(plain, ctx.tier, rnd))
        if di == 4:
            muts = [m for m in muts if m[0].startswith('multi:')]
        if di == 5:
            muts = [m for m in muts if m[0].startswith('in-range:')]
        if quick and di in (1, 2):
            # thin the type changes deterministically on two of the documents: the quick tier keeps every deletion, perturbation, truncation class
            muts = [m for j, m in enumerate(muts) if not m[0].startswith('type:') or (j + ctx.seed) % 4 == 0]
        for j, (label, ans, single) in enumerate(muts):
            modes = [MODES[(j + di + ctx.seed) % 5]] if quick else MODES
            if label.startswith('multi:') and quick:
                modes = ['html', MODES[(j + ctx.seed) % 4]]
            if di == 5:
                modes = MODES
            for mode in modes:
                idx += 1
                if idx % ctx.nshards != ctx.shard:
                    continue
                if done >= budget:
                    break
                done += 1
                v = verdict(doc, ans, mode, d, label)
                if v is not None:
                    ctx.violation(v)
                    if ctx.too_many():
                        return
                try:
                    json.loads(ans.decode('utf-8'))
                    parses = True
                except Exception:
                    parses = False
                nt = (single and parses) or label.startswith('truncate-inside')
                ctx.stats.case(key=(di, label, mode), nontrivial=nt, classes=[label.split(':')[0], 'mode:' + mode],
                               sample={'document': doc[:80], 'mutation': label, 'mode': mode})
    ctx.stats.extra['mutations_enumerated'] = idx
