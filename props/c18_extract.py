"""C18 - extraction and inclusion tracking.

(a) extraction: generated documents with listed and unlisted macros in every
    context; the output must consist of exactly the first mandatory arguments
    of the listed macros in order of appearance, with exact positions.
(b) inclusion tracking through `python -m yalafi.shell --include`: all
    inclusion graphs over a bounded number of files compared with a reference
    work list (module c18_include, needs the fake proofreader).
"""
import re

from hypothesis import strategies as st

from vlib import sut
from vlib.runner import Violation, hyp_run, sut_frame, watchdog

ID = 'C18'
LEVEL = 'exploration'
RULE = ('(a) Hypothesis: documents with listed macros (unknown names, \\input, \\include, \\footnote[..]{..}, \\section*[..]{..}, \\caption, \\newtheorem{..}[..]{..}, \\fcolorbox, \\newcommand, \\href, \\textcolor) '
        'and unlisted macros at top level, in groups, arguments of unknown macros, environments, items, after comments, and inside comments, LT-SKIP regions, \\LTskip, \\verb and verbatim (never reported); '
        'extraction lists of 1-4 names. oracle: non-blank output == concatenation of the first mandatory arguments of the listed macros in order of appearance, every word at its exact source offset. '
        '(b) all inclusion graphs over up to 3 files with up to 2 ordered \\input/\\include entries per file (with/without .tex, self-inclusion, cycles, duplicates, duplicate root files) x --skip patterns; '
        'oracle: reference breadth-first work list (each file once, in discovery order, without skipped files; terminates). '
        'non-trivial = (a) a listed macro inside a hidden context next to a visible one, or a listed macro with optional arguments before/after its first mandatory one; (b) a graph with a cycle or a duplicate; distinct by case')
RULE += ' Additions: \\def macros whose body calls two listed macros; scanned files show \\input / \\include inside lstlisting, tikzpicture and skip regions (not followed).'
ASSUMPTIONS = [
    'occurrences inside arguments of declared macros that are not listed are not generated (extraction mode empties every declared macro by design; README restricts the option to predefined macros)',
    'a listed macro inside the extracted argument of another listed macro is not generated (the statement does not fix the relative order)',
    '(b) file names are plain ASCII without blanks; the proofreader is a fake executable that reports nothing',
]
LEVEL_TEXT = ('(a) generated search with exact expected output; (b) exhaustive enumeration of the bounded graph space (thorough) or all 2-file graphs plus a seeded sample (quick) against a reference work list.')
LEVEL_NOTE = 'Trusted: renderer annotations (a) and the 20-line reference work list (b). (b) is exhaustive only within the stated bound.'
TECHNIQUE = 'Hypothesis document generator with exact extraction oracle + bounded-exhaustive inclusion-graph enumeration against a reference work list (subprocess)'
EXHAUSTIVE = {'quick': False, 'thorough': True}

# (template, name for the list, needs_pack)  X = first mandatory argument (a small flow), K = other argument text
LISTED = [
    ('\\zzex{X}', 'zzex'), ('\\zzey{X}{K}', 'zzey'), ('\\input{X}', 'input'), ('\\include{X}', 'include'),
    ('\\footnote{X}', 'footnote'), ('\\footnote[K]{X}', 'footnote'), ('\\section{X}', 'section'), ('\\section*[K]{X}', 'section'),
    ('\\caption[K]{X}', 'caption'), ('\\newtheorem{X}[K]{K}', 'newtheorem'), ('\\newtheorem{X}{K}[K]', 'newtheorem'),
    ('\\fcolorbox{X}{K}{K}', 'fcolorbox'), ('\\fcolorbox[K]{X}[K]{K}{K}', 'fcolorbox'), ('\\href{X}{K}', 'href'),
    ('\\textcolor[K]{X}{K}', 'textcolor'), ('\\newcommand{X}[1][K]{K}', 'newcommand'), ('\\zzex {X}', 'zzex'), ('\\zzex\n{X}', 'zzex'),
]
OPT_AROUND = {'\\footnote[K]{X}', '\\section*[K]{X}', '\\caption[K]{X}', '\\newtheorem{X}[K]{K}', '\\newtheorem{X}{K}[K]',
              '\\fcolorbox[K]{X}[K]{K}{K}', '\\textcolor[K]{X}{K}', '\\newcommand{X}[1][K]{K}'}
UNLISTED = ['\\zzother{K}', '\\label{K}', '\\zzbf{K} K', '\\LaTeX{}', '\\cite{K}', '$K$', 'K --- K', '\\index{K}']
HIDDEN = ['%% %s\n', '\n%%%%%% LT-SKIP-BEGIN\n%s\n%%%%%% LT-SKIP-END\n', '\\LTskip{%s}', '\\verb|%s|', '\\begin{verbatim}\n%s\n\\end{verbatim}',
          '\\begin{lstlisting}\n%s\n\\end{lstlisting}', '\\begin{lstlisting}\n\\begin{document} %s \\end{document}\n\\end{lstlisting}',
          '\\begin{tikzpicture}\\begin{scope} x \\end{scope} %s\\end{tikzpicture}', '\\begin{tikzpicture}\\begin{tikzpicture} \\end{tikzpicture} %s\\end{tikzpicture}',
          '\n%%%%%% LT-SKIP-BEGIN\n%s\n%%%%%% LT-SKIP-END\n%%%%%% LT-SKIP-END\n']
CONTEXT = [('', ''), ('{', '}'), ('\\zzwrap{', '}'), ('\\begin{itemize}\n\\item ', '\n\\end{itemize}'), ('\\begin{zzenv} ', ' \\end{zzenv}'),
           ('\\begin{minipage}{5cm} ', ' \\end{minipage}'), ('%c\n', ''), ('\\zzwrap{\\zzwrap{', '}}'), ('\\begin{enumerate}\\item[(a)] ', '\\end{enumerate}')]

listed = st.tuples(st.just('L'), st.sampled_from(LISTED), st.integers(1, 3), st.sampled_from(CONTEXT), st.booleans())
unlisted = st.tuples(st.just('U'), st.sampled_from(UNLISTED))
hidden = st.tuples(st.just('H'), st.sampled_from(HIDDEN), st.sampled_from(LISTED))
# a \def macro (the only definitions executed in extraction mode) whose body calls two listed macros with literal
# arguments: both are reported at every use (seeded change C18-G)
defbody = st.tuples(st.just('D'), st.sampled_from(LISTED[:8]), st.sampled_from(LISTED[:8]), st.integers(1, 2))
doc_s = st.tuples(st.lists(st.one_of(listed, listed, unlisted, hidden, defbody, st.just(('W',)), st.just(('E',))), min_size=1, max_size=9),
                  st.lists(st.sampled_from(['zzex', 'zzey', 'input', 'include', 'footnote', 'section', 'caption', 'newtheorem',
                                            'fcolorbox', 'href', 'textcolor', 'newcommand', 'zznever', 'LaTeX']), min_size=1, max_size=4, unique=True),
                  st.sampled_from(['*', '*', None]))


class R:
    def __init__(self):
        self.src = ''
        self.n = 0

    def word(self, p='E'):
        self.n += 1
        return p + ''.join('abcdefghij'[int(d)] for d in '%03d' % self.n) + 'q'


def fill(r, templ, nwords, wrap, expect):
    """render a listed-macro template; returns list of (word, offset) of its first mandatory argument"""
    out = []
    i = 0
    while i < len(templ):
        c = templ[i]
        if c == 'X':
            for k in range(nwords):
                if k:
                    r.src += ' '
                if wrap and k == 1:
                    r.src += '\\zzit{'
                w = r.word('E' if expect else 'H')
                out.append((w, len(r.src)))
                r.src += w
                if wrap and k == 1:
                    r.src += '}'
        elif c == 'K':
            r.src += r.word('H')
        else:
            r.src += c
        i += 1
    return out


def adjust(doc):
    """make sure the extraction list names at least one macro of the document (when there is one)"""
    items, names, pack = doc
    names = list(names)
    ls = [it[1][1] for it in items if it[0] == 'L']
    if ls and not any(n in names for n in ls):
        names.append(ls[len(items) % len(ls)])
    return items, names, pack


def render(doc):
    items, names, pack = doc
    r = R()
    expected = []
    feats = set()
    declared_pack = pack == '*'
    for it in items:
        if it[0] == 'E':
            # a left-over end marker without begin is an ordinary comment
            r.src += '\n%%% LT-SKIP-END\n'
            feats.add('stray-skip-end')
        elif it[0] == 'W':
            r.src += r.word('H') + ' '
        elif it[0] == 'D':
            name = '\\zzd' + 'abcdefghij'[len(r.src) % 10] + 'abcdefghij'[r.n % 10]
            r.src += '\\def' + name + '{'
            ws = []
            for templ, nm in (it[1], it[2]):
                w = fill(r, templ, 1, False, nm in names)
                r.src += ' '
                if nm in names:
                    ws += [(x, None) for x, _ in w]        # position: the call (not asserted here)
            r.src += '} '
            for _ in range(it[3]):
                r.src += name + ' '
                expected += ws
            if ws:
                feats.add('listed')
                feats.add('listed-in-def-body')
        elif it[0] == 'U':
            t = it[1]
            while 'K' in t:
                t = t.replace('K', r.word('H'), 1)
            r.src += t + ' '
        elif it[0] == 'H':
            templ, name = it[2]
            sub = R()
            sub.n = r.n + 500
            fill(sub, templ.replace('\n', ' '), 1, False, False)
            frame = it[1]
            if ('lstlisting' in frame or 'tikzpicture' in frame) and not declared_pack:
                frame = HIDDEN[4]       # without their packages these environments are unknown, their content is text
            if 'LT-SKIP-BEGIN' in frame:
                # a region whose opening marker is the very first token of the text, or follows the end marker of
                # the previous region directly (round-5 seed C18-I)
                if not r.src:
                    frame = frame[1:]
                    feats.add('skip-region-first-token')
                elif r.src.endswith('LT-SKIP-END\n '):
                    r.src = r.src[:-1]
                    frame = frame[1:]
                    feats.add('skip-regions-adjacent')
            r.src += frame % sub.src + ' '
            if name in names:
                feats.add('listed-in-hidden-context')
        else:
            (templ, name), nwords, (pre, post), wrap = it[1], it[2], it[3], it[4]
            if templ.endswith(' X'):
                nwords = 1      # unbraced single-token argument
            if name in ('input', 'include', 'newcommand', 'newtheorem') and (wrap or nwords > 1):
                wrap = False
            r.src += pre
            is_listed = name in names
            if name in ('fcolorbox', 'href', 'textcolor') and not declared_pack:
                # not declared without its package: an unknown listed macro takes the first group
                if templ.startswith(('\\fcolorbox[', '\\textcolor[')):
                    templ = '\\' + name + '{X}{K}'
            ws = fill(r, templ, nwords, wrap, is_listed)
            r.src += post + ' '
            if is_listed:
                expected += ws
                feats.add('listed')
                if templ in OPT_AROUND:
                    feats.add('optional-arguments-around')
                if pre:
                    feats.add('context')
    return r, expected, feats


def check(doc):
    doc = adjust(doc)
    items, names, pack = doc
    r, expected, feats = render(doc)
    src = r.src + '\n'
    case = {'doc': doc, 'src': src}
    try:
        with watchdog(20):
            (plain, pos), err = sut.tex2txt(src, pack=pack, extr=','.join(names), lang='en')
    except Exception as e:
        raise Violation('exception:' + sut_frame(e), case, repr(e))
    got = ''.join(plain.split())
    want = ''.join(w for w, _ in expected)
    det = {'extr': names, 'pack': pack, 'expected_words': [w for w, _ in expected], 'plain': plain}
    if got != want:
        hid = re.findall(r'H[a-j]{3}q', plain)
        if hid:
            raise Violation('text-outside-listed-arguments-reported', case, dict(det, leaked=hid))
        raise Violation('extraction-differs', case, det)
    for w, off in expected:
        if off is None:
            continue
        i = plain.find(w)
        if list(pos[i:i + len(w)]) != list(range(off + 1, off + 1 + len(w))):
            raise Violation('extracted-word-position', case, dict(det, word=w, positions=list(pos[i:i + len(w)]), expected_first=off + 1))
    nt = ('listed' in feats and 'listed-in-hidden-context' in feats) or 'optional-arguments-around' in feats
    return src, nt, feats, len(expected)


def replay(case):
    from vlib.docprop import untuple
    if 'graph' in case:
        from props import c18_include
        return c18_include.replay(case)
    try:
        check(untuple(case['doc']))
    except Violation as v:
        return v
    return None


def run_shard(ctx):
    def one(doc):
        src, nt, feats, n = check(doc)
        ctx.stats.case(key=(src, doc[1]), nontrivial=nt, classes=['extraction'] + sorted('extraction:' + f for f in feats),
                       sample={'src': src, 'extr': adjust(doc)[1], 'pack': doc[2]})
    hyp_run(ctx, doc_s, one, ctx.n(30000, 200000))
    try:
        from props import c18_include
    except ImportError:
        return
    c18_include.run(ctx)
