"""C17 - results do not depend on what was processed before.

Hypothesis RuleBasedStateMachine: every history runs in one freshly started,
long-lived worker interpreter; rules call the filter with (document, options)
pairs from a pool built as producer / consumer pairs (a producer defines,
loads or switches something the consumer uses without defining).  Invariant
over the history: every result equals the result of the same call made as the
first call of a fresh process.  A second machine drives one --as-server
process with request sequences and compares with fresh servers.
"""
import json
import os
import subprocess

import hypothesis
from hypothesis import HealthCheck, settings, strategies as st
from hypothesis.stateful import RuleBasedStateMachine, rule, run_state_machine_as_test

from vlib import docgen, sut
from vlib.runner import Violation, h64

ID = 'C17'
LEVEL = 'exploration'
RULE = ('Hypothesis rule-based state machine: histories of 2-25 filter calls in one interpreter over a pool of about 60 (document, options) entries arranged as producer/consumer pairs: user definitions and '
        'redefinitions, \\newtheorem, glossary data base via \\LTinput, cleveref sed file, package and class loading inside the text, babel language and shorthands, long formula runs (placeholder rotation), '
        'unclosed nested enumerations (item counters), definitions option, extraction, unknowns, multi-language runs with language-change placeholders, no-specials, simple equations, replacements, error cases; '
        'rules: call(any entry), pair(k) = producer k then consumer k, repeat(last call). invariant: result == result of the same call as first call of a fresh process. '
        'second machine: request sequences to one --as-server process compared with fresh servers. '
        'non-trivial = history in which a producer precedes its consumer; distinct by the sequence of pool indices')
RULE += ' Additions: pool pairs that rewrite an included file (glossary definitions, cleveref sed file) under the same name between two calls.'
ASSUMPTIONS = [
    'the documents read scratch files (glossary data base, sed file, definitions) that do not change during a history',
    'a result is the returned value plus the diagnostics written to stderr',
]
LEVEL_TEXT = ('Stateful generated search (Hypothesis state machine) over call histories with a history invariant against fresh-process references; '
              'the pool is built so that leaked state of any kind named in the statement changes a later result.')
LEVEL_NOTE = 'Histories are sampled; only state that changes the result of one of the pool documents can be seen.'
TECHNIQUE = 'Hypothesis RuleBasedStateMachine over call histories in a long-lived interpreter / server, fresh-process differential as history invariant'

GLS = '\\gls@defglossaryentry{lab}{name={Name},text={glossar text},plural={plurals},description={desc}}\n'
FILES = {'zz.glsdefs': GLS, 'zz.sed': docgen.SED, 'zz2.sed': 's/\\\\cref{zzother}/other ref/g\n', 'zzrepl.txt': 'Waaaq & REPLACED\nso dass & sodass\n', 'zzdefs.tex': '\\newcommand{\\zzfromfile}{Fromfile}\n\\usepackage[german]{babel}\n'}
STAR = dict(pack='*')
MLK = dict(pack='*', lang='en-GB')


def E(src, ml=False, thresh=None, **kw):
    return {'src': src, 'opts': kw, 'ml': ml, 'thresh': thresh}


def EF(files, src, **kw):
    e = E(src, **kw)
    e['files'] = files          # written into the work directory right before the call
    return e


GLS2 = GLS.replace('glossar text', 'other entry').replace('plurals', 'others')
PAIRS = [
    (E('\\newcommand{\\zzp}{Defined} A \\zzp B'), E('A \\zzp B')),
    (E('\\renewcommand{\\LaTeX}{Changed} \\LaTeX x'), E('\\LaTeX x')),
    (E('\\newtheorem{zzthm}{Satz}\\begin{zzthm} a \\end{zzthm}', **STAR), E('\\begin{zzthm} a \\end{zzthm} b', **STAR)),
    (E('\\LTinput{zz.glsdefs} \\gls{lab} x', **STAR), E('A \\gls{lab} B \\Glspl{lab}', **STAR)),
    (E('\\usepackage[poorman]{cleveref}\\YYCleverefInput{zz.sed} \\cref{zzeq}', **STAR), E('\\usepackage[poorman]{cleveref} \\cref{zzeq} x', **STAR)),
    (E('\\usepackage{xcolor} \\textcolor{red}{x}'), E('\\textcolor{red}{x} y')),
    (E('\\usepackage[german]{babel} "a "o x', lang='de'), E('"a "o x', lang='en')),
    (E('\\usepackage[german]{babel} "a "o x', lang='de', pack='*'), E('"a x', lang='de')),
    (E('$a$ $b$ $c$ $d$ $e$ x'), E('$a$ x')),
    (E('\\[a\\] \\[b\\] \\[c\\] x', **STAR), E('\\[a.\\] y', **STAR)),
    (E('\\begin{enumerate}\\item a \\item b \\begin{enumerate}\\item c'), E('\\item x \\begin{enumerate}\\item y\\end{enumerate}')),
    (E('x \\footnote{f} \\section{s} y', extr='footnote,section'), E('x \\footnote{f} \\section{s} y')),
    (E('\\zzu \\zzv', unkn=True), E('\\zzw', unkn=True)),
    (E('a \\foreignlanguage{german}{b} c \\foreignlanguage{german}{d} e \\foreignlanguage{german}{f} g', True, 3, **MLK),
     E('a \\foreignlanguage{german}{b} c', True, 3, **MLK)),
    (E('\\documentclass[german]{scrartcl} \\usepackage{babel} "a x \\KOMAoptions{k}', pack=None), E('\\KOMAoptions{x} y "a')),
    (E('\\zzd x', defs='\\newcommand{\\zzd}{Fromdefs}'), E('\\zzd x')),
    (E('\\LTadd{a} \\LTskip{b}\n%%% LT-SKIP-BEGIN\nx\n%%% LT-SKIP-END\ny', nosp=True), E('\\LTadd{a} \\LTskip{b}\n%%% LT-SKIP-BEGIN\nx\n%%% LT-SKIP-END\ny')),
    (E('\\LTinput{zzdefs.tex} \\zzfromfile "a', lang='en'), E('\\zzfromfile x "a', lang='en')),
    (E('\\[ a = b. \\] x', seqs=True), E('\\[ a = b. \\] x')),
    (E('so dass x', repl=['so dass & sodass\n']), E('so dass x')),
    (E('\\selectlanguage{russian} $a$ x', True, 2, **MLK), E('$a$ x \\foreignlanguage{german}{y} z', True, 2, **MLK)),
    (E('x $a'), E('$a$ y')),
    (E('\\usepackage{amsmath} \\begin{align} a &= b \\end{align} \\eqref{x}'), E('\\begin{align} a &= b \\end{align} \\eqref{x}')),
    (E('\\def\\zzq#1{<#1>} \\zzq{x}'), E('\\zzq{x} y')),
    (E('\\newacronym{ab}{AB}{long form} \\newglossaryentry{gg}{name=n,description={the d}} x', **STAR), E('\\gls{ab} \\gls{gg} y', **STAR)),
    (E('\\renewcommand{\\section}[1]{SEC} \\section{a}'), E('\\section{a} b')),
    (E('\\usepackage{xspace} a\\xspace b', pack=None), E('a\\xspace b', pack=None)),
    (E('\\newcommand{\\zzo}[2][dflt]{#1-#2} \\zzo{x} \\zzo[y]{z}'), E('\\newcommand{\\zzo}[1]{(#1)} \\zzo{x}')),
    (E('\\usepackage[russian]{babel} \\[a\\] $b$', True, 2, **MLK), E('\\[a\\] $b$', True, 2, **MLK)),
    (E('\\selectlanguage{austrian} x \\foreignlanguage{klingon}{y}', True, 2, **MLK), E('\\usepackage[ngerman,austrian]{babel} y \\foreignlanguage{klingon}{z} u', True, 2, **MLK)),
    (E('\\usepackage[klingon]{babel} x', True, 2, **MLK), E('\\documentclass[french,klingon]{article}\\usepackage{babel} y', True, 2, pack=None, lang='en-GB')),
    (E('\\begin{align} a &= b \\end{align} \\eqref{x} \\textcolor{red}{c}', dcls='article', pack='amsmath,xcolor'),
     E('\\begin{align} a &= b \\end{align} \\eqref{x} \\textcolor{red}{c}', dcls='article', pack=None)),
    (E('\\href{u}{v} \\zzz a\\xspace b', dcls='scrartcl', pack='hyperref,xcolor', unkn=True),
     E('\\href{u}{v} \\zzz a\\xspace b', dcls='scrartcl', pack='xspace', unkn=True)),
    (E('\\newtheorem{thm}{Theorem} \\begin{thm}[Riesz] a \\end{thm}', **STAR), E('\\begin{thm}[Riesz] b \\end{thm}', **STAR)),
    (E('\\newtheorem{lem}{Lemma} x', dcls='article', pack=None), E('\\documentclass{article} \\begin{lem}[Zorn] b \\end{lem}', pack=None)),
    (E('\\usepackage[poorman]{cleveref}\\YYCleverefInput{zz.sed} \\cref{zzeq} \\Cref{zzeq} a', **STAR),
     E('\\usepackage[poorman]{cleveref}\\YYCleverefInput{zz2.sed} \\cref{zzeq} \\cref{zzother} b', **STAR)),
    (E('\\begin{itemize}\\item a \\begin{itemize} \\item b', dcls='article'), E('\\begin{itemize}\\item c\\end{itemize}', dcls='article')),
    # the same file name with new content: what was read for an earlier document must not be used again (seeded change C17-H)
    (EF({'zzvar.glsdefs': GLS}, '\\LTinput{zzvar.glsdefs} \\gls{lab} x', **STAR), EF({'zzvar.glsdefs': GLS2}, '\\LTinput{zzvar.glsdefs} \\gls{lab} \\glspl{lab} y', **STAR)),
    (EF({'zzvar.sed': docgen.SED}, '\\usepackage[poorman]{cleveref}\\YYCleverefInput{zzvar.sed} \\cref{zzeq}', **STAR),
     EF({'zzvar.sed': docgen.SED.replace('eq.', 'formula')}, '\\usepackage[poorman]{cleveref}\\YYCleverefInput{zzvar.sed} \\cref{zzeq} x', **STAR)),
]
POOL = [e for p in PAIRS for e in p]
NP = len(PAIRS)


class Worker:
    def __init__(self, cwd):
        self.p = subprocess.Popen([sut.PYTHON, '-B', os.path.join(os.path.dirname(os.path.abspath(sut.__file__)), 't2t_worker.py')],
                                  cwd=cwd, env=sut.sub_env(), stdin=subprocess.PIPE, stdout=subprocess.PIPE,
                                  stderr=subprocess.DEVNULL, text=True, encoding='utf-8')

    def call(self, entry):
        for f, txt in (entry.get('files') or {}).items():
            with open(os.path.join(workdir(), f), 'w', encoding='utf-8') as fh:
                fh.write(txt)
        self.p.stdin.write(json.dumps(entry) + '\n')
        self.p.stdin.flush()
        line = self.p.stdout.readline()
        if not line:
            return {'ok': False, 'exception': 'worker died'}
        return json.loads(line)

    def close(self):
        try:
            self.p.stdin.close()
            self.p.wait(timeout=10)
        except Exception:
            self.p.kill()
            self.p.wait()


_workdir = None
_ref = {}


def workdir():
    global _workdir
    want = os.path.join(sut.scratch_dir(), 'c17')       # per process: shards are forked from the runner
    if _workdir != want or not os.path.isdir(_workdir):
        _workdir = want
        os.makedirs(_workdir, exist_ok=True)
        for f, txt in FILES.items():
            with open(os.path.join(_workdir, f), 'w', encoding='utf-8') as fh:
                fh.write(txt)
    return _workdir


def reference(i):
    if i not in _ref:
        w = Worker(workdir())
        try:
            _ref[i] = w.call(POOL[i])
        finally:
            w.close()
    return _ref[i]


class History(RuleBasedStateMachine):
    def __init__(self):
        super().__init__()
        self.w = Worker(workdir())
        self.seq = []

    def _do(self, i):
        self.seq.append(i)
        got = self.w.call(POOL[i])
        want = reference(i)
        if got != want:
            v = Violation('result-depends-on-history', {'history': list(self.seq)},
                          {'call': POOL[i], 'history_documents': [POOL[j]['src'] for j in self.seq[:-1]][-6:],
                           'alone_in_fresh_process': want, 'after_history': got})
            LAST.append(v)
            raise v

    @rule(i=st.integers(0, len(POOL) - 1))
    def call(self, i):
        self._do(i)

    @rule(k=st.integers(0, NP - 1))
    def pair(self, k):
        self._do(2 * k)
        self._do(2 * k + 1)

    @rule()
    def repeat(self):
        if self.seq:
            self._do(self.seq[-1])

    def teardown(self):
        self.w.close()
        STATS.append(list(self.seq))


STATS = []
LAST = []


def has_pair(seq):
    first = {}
    for pos, i in enumerate(seq):
        if i % 2 == 0:
            first.setdefault(i, pos)
        elif i - 1 in first:
            return True
    return False


def replay_history(seq):
    w = Worker(workdir())
    done = []
    try:
        for i in seq:
            done.append(i)
            got = w.call(POOL[i])
            want = reference(i)
            if got != want:
                return Violation('result-depends-on-history', {'history': done},
                                 {'call': POOL[i], 'alone_in_fresh_process': want, 'after_history': got})
    finally:
        w.close()
    return None


def replay(case):
    if 'requests' in case:
        from props import c17_server
        return c17_server.replay(case)
    return replay_history(case['history'])


def run_shard(ctx):
    n = ctx.n(1600, 20000)
    if n > 0:
        hs = settings(max_examples=n, stateful_step_count=12 if ctx.tier == 'quick' else 25, deadline=None, database=None,
                      suppress_health_check=list(HealthCheck), report_multiple_bugs=False, print_blob=False)
        try:
            run_state_machine_as_test(hypothesis.seed(ctx.shard_seed)(History), settings=hs)
        except Violation as v:
            # shrink the history by hand as well (drop calls that are not needed)
            seq = list(v.case['history'])
            i = 0
            while i < len(seq) - 1:
                cand = seq[:i] + seq[i + 1:]
                if replay_history(cand) is not None:
                    seq = cand
                else:
                    i += 1
            vv = replay_history(seq) or v
            ctx.violation(vv)
        except Exception as e:
            if LAST:
                ctx.violation(LAST[-1])
            else:
                ctx.error('history machine: %r' % (e,))
        for seq in STATS:
            ctx.stats.case(key=seq, nontrivial=has_pair(seq), classes=['history'] + (['producer-before-consumer'] if has_pair(seq) else []),
                           sample={'history_of_pool_indices': seq, 'last_document': POOL[seq[-1]]['src'] if seq else None}, n=max(1, len(seq)))
        ctx.stats.extra['histories'] = ctx.stats.extra.get('histories', 0) + len(STATS)
    try:
        from props import c17_server
    except ImportError:
        return
    c17_server.run(ctx)


def finish(tier, classes, ev, nt):
    h = classes.get('history', 0)
    if h and classes.get('producer-before-consumer', 0) * 2 < h:
        return 'fewer than half of the histories contain a producer before its consumer (%d of %d)' % (classes.get('producer-before-consumer', 0), h)
    return None
