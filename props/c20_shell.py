"""C20, end-to-end sample: --single-letters / --equation-punctuation through `python -m yalafi.shell`
with a fake proofreader that reports nothing; the messages of the shell's own checks are compared
with the reference scans of c20_checks applied to the plain text of the document."""
import json
import os
import random

from props import c20_checks as c
from vlib import sut
from vlib.runner import Violation, watchdog

CHANGE = ['K-K-K', 'L-L-L', 'M-M-M', 'N-N-N']
WORDS = ['The', 'word', '\\foreignlanguage{german}{das}', '\\foreignlanguage{french}{x}', '\\foreignlanguage{german}{u v}', 'a', 'I', 'x', 'e.g.', 'b', 'Then', 'follows', '$y$', '$z$,', '\\[ a = b \\]', '\\[ c. \\]', 'Z', 'z.\\,B.', 'i.e.', '1', 'and', '\\[ d, \\]']


def gen(rnd):
    n = rnd.randint(4, 14)
    src = ' '.join(rnd.choice(WORDS) for _ in range(n)) + '\n'
    accept = rnd.choice(['A|a|I||', 'a|I', 'x|e.g.|i.e.||', '', 'z.\\,B.||', 'a'])
    mode = rnd.choice([None, 'displayed', 'inline', 'all', 'd', 'i'])
    return {'shell': True, 'src': src, 'accept': accept, 'eqmode': mode, 'ml': rnd.random() < 0.5}


def check(case):
    d = os.path.join(sut.scratch_dir(), 'c20s')
    os.makedirs(d, exist_ok=True)
    with open(os.path.join(d, 't.tex'), 'w', encoding='utf-8') as f:
        f.write(case['src'])
    args = ['--output', 'json', '--language', 'en-GB', '--single-letters', case['accept']]
    ml = bool(case.get('ml'))
    if ml:
        args += ['--multi-language', '--ml-continue-threshold', '2']
    if case['eqmode']:
        args += ['--equation-punctuation', case['eqmode']]
    with watchdog(120):
        rc, out, err = sut.run_shell(args + ['t.tex'], d, plan={'mode': 'flag_words', 'words': []})
    det = {'status': rc, 'stderr': err.decode('utf-8', 'replace')[-500:]}
    if rc != 0:
        raise Violation('shell-failed', case, det)
    got = sorted((m['offset'], m['rule']['id']) for m in json.loads(out.decode('utf-8'))['matches'])
    res, _ = sut.tex2txt(case['src'], ml=ml, thresh=2 if ml else None, lang='en-GB', pack='*')
    acc = case['accept']
    if acc.endswith('||'):
        # documented: trailing || adds the equation placeholders and (multi-language) the language-change placeholders
        acc += '|'.join(c.DISP['en'] + c.INL['en'] + (CHANGE if ml else []))
    want = []
    ambiguous = False
    plains = []
    for lang, plain, cmap in sut.parts_of(res, ml):
        if not plain.strip():
            continue
        plains.append(plain)
        iso = c.ref_isolated(plain)
        occ = []
        for p in [a for a in acc.split('|') if a]:
            occ += c.occurrences(plain, p)
        ambiguous = ambiguous or any(a < j and i < b and (a, b) != (i, j) for (i, j) in occ for (a, b) in occ)
        covered = set()
        for i, j in occ:
            covered.update(range(i, j))
        want += [(cmap[i] - 1, 'PRIVATE::SINGLE_LETTER') for i in iso if i not in covered]
        if case['eqmode']:
            repls = {'d': c.DISP['en'], 'i': c.INL['en'], 'a': c.DISP['en'] + c.INL['en']}[case['eqmode'][0]]
            want += [(cmap[o] - 1, 'PRIVATE::EQUATION_PUNCTUATION') for o, _ in c.ref_equation(plain, repls)]
    if ambiguous:
        return False
    if got != sorted(want):
        raise Violation('shell-own-checks-differ', case, dict(det, plain=plains, expected=sorted(want), actual=got))
    return bool(want)


def run(ctx):
    rnd = random.Random(ctx.shard_seed + 9)
    for _ in range(ctx.n(160, 3200)):
        case = gen(rnd)
        try:
            nt = check(case)
        except Violation as v:
            ctx.violation(v)
            return
        ctx.stats.case(key=('shell', case['src'], case['accept'], case['eqmode']), nontrivial=bool(nt), classes=['shell-run'], sample=case)
