"""C14 - a proofreader match is reported at the flagged word in the LaTeX file.

End-to-end through `python -m yalafi.shell` with a fake proofreader that flags
chosen words of the plain text it receives.  The renderer knows the source
offset of every flagged word, so line / column / length are predicted
independently and compared in all output modes and for the server emulation.
"""
import json
import os
import re
import socket
import subprocess
import time
import urllib.parse
import urllib.request
import xml.etree.ElementTree as ET

from hypothesis import strategies as st

from vlib import docgen, docprop, htmlparse, sut
from vlib.runner import Violation, hyp_run, watchdog

ID = 'C14'
LEVEL = 'exploration'
RULE = ('Hypothesis: (1) documents of the annotated generator (several lines, non-ASCII words, footnotes, generating and vanishing constructs in front of the flagged words) and (2) multi-language '
        'documents of the C12 generator; a subset of the copied words that occur once in the plain text is flagged by the fake proofreader; each case is run through the shell in the modes '
        'plain, json, xml, xml-b, html and (single-language) through one long-lived --as-server process; options --multi-language, --ml-continue-threshold, --ml-rule-threshold, --ml-disable, --disable, --lt-options. '
        'oracle: line/column/length (characters, bytes for xml-b) of every message == position of the flagged word computed from the source; messages ordered by source offset; context excerpt marks the word; '
        'proofreader log: every part submitted under the language of the reference tracker with the configured rule options. '
        'non-trivial = at least 2 flagged words on different lines, one of them behind a generating or removing construct; distinct by (source, flagged words, mode)')
ASSUMPTIONS = [
    'the proofreader is a fake executable; --server lt / --textgears need the network and are outside the sandbox',
    'only words that occur exactly once in the plain text are flagged (a word duplicated by a user macro has two legitimate report positions)',
]
LEVEL_TEXT = ('End-to-end generated search: real shell processes, real report formats parsed back, positions predicted from the renderer\'s knowledge of the source.')
LEVEL_NOTE = 'Trusted: renderer offsets, the report parsers (regex / json / ElementTree / html.parser), the fake proofreader. Sampling only (about 0.25 s per shell run).'
TECHNIQUE = 'Hypothesis document generator + fake proofreader, differential of all report formats against predicted source positions (subprocess, HTTP)'

MODES = ['plain', 'json', 'xml', 'xml-b', 'html']
SRV_COUNT = [0]
small_doc = st.tuples(st.recursive(docgen.leaf_flow, docgen.mkflow, max_leaves=8), st.sampled_from(['', '\n']))


def linecol(src, off):
    lin = src.count('\n', 0, off) + 1
    col = off - (src.rfind('\n', 0, off) + 1) + 1
    return lin, col


class Server:
    def __init__(self, workdir, extra_args=()):
        self.proc = None
        self.port = None
        self.dir = workdir
        self.extra_args = list(extra_args)

    _counter = [0]

    def start(self):
        # Ports are derived from the process id and reserved with an exclusive lock file that is held as long as
        # the server lives: two harness processes can never use the same port at the same time.
        # (Asking the kernel for a free port raced between shards, and so did "probe, then start": the loser's
        # server failed to bind and its shard then talked to the winner's server.)
        import fcntl
        lockdir = os.path.join(os.environ.get('TMPDIR', '/tmp'), 'yalafi-verif-ports')
        os.makedirs(lockdir, exist_ok=True)
        for attempt in range(40):
            Server._counter[0] += 1
            port = 15000 + (os.getpid() * 31 + Server._counter[0] * 7) % 45000
            fd = os.open(os.path.join(lockdir, str(port)), os.O_CREAT | os.O_RDWR, 0o666)
            try:
                fcntl.flock(fd, fcntl.LOCK_EX | fcntl.LOCK_NB)
            except OSError:
                os.close(fd)
                continue
            self.release_port()
            self.lock_fd = fd
            try:
                probe = socket.socket()
                probe.setsockopt(socket.SOL_SOCKET, socket.SO_REUSEADDR, 1)
                probe.bind(('localhost', port))
                probe.close()
            except OSError:
                continue
            # every server instance has its own plan file: two servers never share proofreader settings
            pf = os.path.join(self.dir, 'plan-%d.json' % port)
            self.plan_file = pf
            if os.path.exists(os.path.join(self.dir, 'plan.json')):
                import shutil
                shutil.copy(os.path.join(self.dir, 'plan.json'), pf)
            else:
                with open(pf, 'w') as f:
                    f.write('{"mode": "flag_words", "words": []}')
            self.proc = subprocess.Popen(
                [sut.PYTHON, '-B', '-m', 'yalafi.shell', '--no-config', '--as-server', str(port),
                 '--lt-command', '/usr/bin/python3 -S %s %s' % (sut.FAKELT, pf)] + self.extra_args,
                cwd=self.dir, env=sut.sub_env(), stdout=subprocess.DEVNULL, stderr=subprocess.DEVNULL)
            for _ in range(150):
                time.sleep(0.1)
                if self.proc.poll() is not None:
                    break
                try:
                    c = socket.create_connection(('localhost', port), timeout=1)
                    c.close()
                except OSError:
                    continue
                time.sleep(0.2)
                if self.proc.poll() is None:        # it is our process that listens
                    self.port = port
                    return True
                break
            self.stop()
        return False

    def request(self, text, language='en-GB', extra=None):
        data = {'text': text, 'language': language}
        data.update(extra or {})
        req = urllib.request.Request('http://localhost:%d/v2/check' % self.port,
                                     data=urllib.parse.urlencode(data).encode('ascii'))
        with urllib.request.urlopen(req, timeout=60) as r:
            return json.loads(r.read().decode('utf-8'))

    def release_port(self):
        if getattr(self, 'lock_fd', None) is not None:
            os.close(self.lock_fd)
            self.lock_fd = None

    def stop(self):
        if self.proc is not None:
            self.proc.kill()
            self.proc.wait()
            self.proc = None
        self.release_port()


def expected_of(src, flagged):
    """flagged: (plain word, source offset[, length of its source text])"""
    exp = []
    for t in sorted(flagged, key=lambda t: t[1]):
        w, off = t[0], t[1]
        ln = t[2] if len(t) > 2 else len(w)
        lin, col = linecol(src, off)
        elin, ecol = linecol(src, off + ln - 1)
        exp.append({'word': w, 'offset': off, 'length': ln, 'line': lin, 'col': col, 'endline': elin, 'endcol': ecol})
    return exp


def check_mode(mode, out, src, exp, rc):
    det = {'mode': mode, 'expected': exp, 'output': (out if isinstance(out, str) else json.dumps(out))[:3000]}
    lines = src.split('\n')
    if mode == 'plain':
        got = [(int(a), int(b)) for a, b in re.findall(r'^\d+\.\) Line (\d+), column (\d+), Rule ID:', out, re.M)]
        want = [(e['line'], e['col']) for e in exp]
        if got != want:
            raise Violation('text-report-positions', rc, dict(det, got=got, want=want))
        blocks = out.split('=== t.tex ===\n')[1:]
        for e, b in zip(exp, blocks):
            bl = b.split('\n')
            carets = next((i for i, l in enumerate(bl) if l.strip() and set(l.strip()) == {'^'}), None)
            if carets is None:
                raise Violation('text-report-context', rc, det)
            cl = bl[carets]
            beg = len(cl) - len(cl.lstrip(' '))
            if bl[carets - 1][beg:beg + len(cl.strip())] != e['word']:
                raise Violation('text-report-context-marks-other-text', rc, dict(det, marked=bl[carets - 1][beg:beg + len(cl.strip())], word=e['word']))
    elif mode in ('json', 'server'):
        ms = json.loads(out)['matches'] if isinstance(out, str) else out['matches']
        got = [(m['offset'], m['length']) for m in ms]
        want = [(e['offset'], e['length']) for e in exp]
        if got != want:
            raise Violation(mode + '-report-positions', rc, dict(det, got=got, want=want))
        for m, e in zip(ms, exp):
            c = m['context']
            if c['text'][c['offset']:c['offset'] + c['length']] != e['word']:
                raise Violation(mode + '-report-context-marks-other-text', rc, dict(det, context=c, word=e['word']))
            if mode == 'json':
                p = m['priv']
                wantp = {'fromy': e['line'] - 1, 'fromx': e['col'] - 1, 'toy': e['endline'] - 1, 'tox': e['endcol']}
                if p != wantp:
                    raise Violation('json-report-line-column', rc, dict(det, priv=p, want=wantp))
    elif mode in ('xml', 'xml-b'):
        root = ET.fromstring(out)
        errs = root.findall('error')
        if len(errs) != len(exp):
            raise Violation('xml-report-count', rc, det)
        for el, e in zip(errs, exp):
            line = lines[e['line'] - 1]
            eline = lines[e['endline'] - 1]
            a, b = e['col'] - 1, e['endcol']
            if mode == 'xml-b':
                a, b = len(line[:a].encode('utf-8')), len(eline[:b].encode('utf-8'))
            want = {'fromy': str(e['line'] - 1), 'fromx': str(a), 'toy': str(e['endline'] - 1), 'tox': str(b)}
            got = {k: el.get(k) for k in want}
            if got != want:
                raise Violation(mode + '-report-positions', rc, dict(det, got=got, want=want))
            ctx = el.get('context')
            co, cl = int(el.get('contextoffset')), int(el.get('errorlength'))
            marked = ctx.encode('utf-8')[co:co + cl].decode('utf-8', 'replace') if mode == 'xml-b' else ctx[co:co + cl]
            if marked != e['word']:
                raise Violation(mode + '-report-context-marks-other-text', rc, dict(det, marked=marked, word=e['word']))
    elif mode == 'html':
        rep = htmlparse.parse(out)
        found = []
        for t in rep.tables:
            if t['overlap']:
                continue
            for num, segs in t['rows']:
                num = num.replace('\xa0', '').strip()
                for txt, title in segs:
                    if title is not None:
                        found.append((htmlparse.norm(txt), int(num) if num.isdigit() else None))
        want = [(e['word'], e['line']) for e in exp]
        if found != want:
            raise Violation('html-report-highlights', rc, dict(det, got=found, want=want))


def run_case(ctx, src, flagged, workdir, server, extra_args=(), nt=False, family='single', ml_info=None, modes=None):
    exp = expected_of(src, flagged)
    with open(os.path.join(workdir, 't.tex'), 'w', encoding='utf-8', newline='') as f:
        f.write(src)
    SRV_COUNT[0] += 2
    log = os.path.join(workdir, 'log-%d.jsonl' % SRV_COUNT[0])      # fresh log per case: no late writer of an earlier case
    plan = {'mode': 'flag_words', 'words': [t[0] for t in flagged], 'log': log, 'shuffle': True}
    for mode in (modes or MODES):
        rc = {'src': src, 'flagged': flagged, 'args': list(extra_args), 'mode': mode}
        if os.path.exists(log):
            os.unlink(log)
        with watchdog(150):
            st_, out, err = sut.run_shell(['--output', mode] + list(extra_args) + ['t.tex'], workdir, plan=plan)
        out = out.decode('utf-8')
        if st_ != 0 or 'Traceback' in err.decode('utf-8', 'replace'):
            raise Violation('shell-failed', rc, {'status': st_, 'stderr': err.decode('utf-8', 'replace')[-800:]})
        check_mode(mode, out, src, exp, rc)
        if ml_info is not None:
            check_log(log, ml_info, rc)
        if os.path.exists(log) and mode != (modes or MODES)[-1]:
            os.unlink(log)
        ctx.stats.case(key=(src, [t[0] for t in flagged], mode, list(extra_args)), nontrivial=nt,
                       classes=[family + ':' + mode] + (['non-ascii-before-word'] if any(ord(c) > 127 for e in exp for c in src.split('\n')[e['line'] - 1][:e['col'] - 1]) else []),
                       sample={'src': src[-400:], 'flagged': [t[0] for t in flagged], 'mode': mode, 'args': list(extra_args)})
    if server is not None and family in ('single', 'compound'):
        rc = {'src': src, 'flagged': flagged, 'mode': 'server'}
        with watchdog(150):
            sut_plan = server.plan_file
            with open(sut_plan, 'w', encoding='utf-8') as f:
                json.dump(plan, f, ensure_ascii=False)
            tex = src if src.endswith('\n') else src + '\n'
            with_field = (SRV_COUNT[0] // 2) % 2 == 1
            if os.path.exists(log):
                os.unlink(log)
            try:
                resp = server.request(tex, extra={'disabledRules': 'REQRULE'} if with_field else None)
            except Exception as e:
                raise Violation('server-request-failed', rc, repr(e))
        check_mode('server', resp, src, exp, rc)
        # the configured rule options (--lt-options of the server) apply unless the request overrides them
        if os.path.exists(log):
            for line in open(log, encoding='utf-8'):
                argv = json.loads(line)['argv']
                dis = [argv[i + 1] for i, a in enumerate(argv[:-1]) if a == '--disable']
                want = ['REQRULE'] if with_field else ['SRVRULE']
                if sorted(set(dis)) != want:
                    raise Violation('server-rule-options', rc, {'proofreader_argv': argv, 'expected_disable': want, 'request_has_disabledRules': with_field})
        ctx.stats.case(key=(src, [t[0] for t in flagged], 'server'), nontrivial=nt, classes=[family + ':server'])


def check_log(log, ml_info, rc):
    recs = [json.loads(l) for l in open(log, encoding='utf-8')]
    thr, mlrule, base = ml_info['rule_threshold'], ml_info['ml_disable'], ml_info['disable']
    for w, lang in ml_info['langs'].items():
        hits = [r for r in recs if w in r['text']]
        det = {'word': w, 'expected_language': lang, 'invocations': [(r['argv'], r['text']) for r in recs]}
        if len(hits) != 1:
            raise Violation('word-not-submitted-exactly-once', rc, det)
        argv = hits[0]['argv']
        if '--language' not in argv or argv[argv.index('--language') + 1] != lang:
            raise Violation('part-submitted-under-wrong-language', rc, det)
        dis = argv[argv.index('--disable') + 1] if '--disable' in argv else ''
        short = len(hits[0]['text'].split()) <= thr
        want = base + (',' + mlrule if short else '')
        if dis != want:
            raise Violation('rule-options-of-part', rc, dict(det, disable=dis, expected=want, words_in_part=len(hits[0]['text'].split())))
        if ml_info.get('lt_options') and ml_info['lt_options'] not in argv:
            raise Violation('lt-options-not-passed', rc, det)


def replay(case):
    d = os.path.join(sut.scratch_dir(), 'c14r')
    os.makedirs(d, exist_ok=True)

    class Dummy:
        class stats:
            @staticmethod
            def case(**kw):
                pass
    try:
        run_case(Dummy, case['src'], [tuple(x) for x in case['flagged']], d, None, extra_args=case.get('args', ()))
    except Violation as v:
        return v
    return None


def run_shard(ctx):
    import random
    d = os.path.join(sut.scratch_dir(), 'c14')
    os.makedirs(d, exist_ok=True)
    docprop.run_source('')      # sed file for the generated documents
    import shutil
    shutil.copy(os.path.join(sut.scratch_dir(), docgen.SED_NAME), d)
    os.chdir(d)
    server = Server(d, ['--lt-options', '~--disable SRVRULE'])
    if not server.start():
        ctx.error('could not start the server emulation')
        server = None
    try:
        def single(doc):
            m = docgen.build(doc)
            src = m.source()
            plain, pos, err = docprop.run_source(src)
            os.chdir(d)
            words = [(a[1], a[2]) for f, _, _ in docgen.flows_of(m) for a in f if a[0] == 'w' and a[3] == 'word' and plain.count(a[1]) == 1]
            if not words:
                return
            r = random.Random(len(src) * 7919 + len(words))
            k = r.randint(1, min(4, len(words)))
            flagged = r.sample(words, k)
            lines = {src.count('\n', 0, t[1]) for t in flagged}
            nt = len(lines) >= 2 and bool(m.features & {'gen', 'vanish', 'removed-env', 'skip-region', 'inline-maths', 'heading', 'list', 'detached'})
            # the glossary data base is passed like a user would: --define file
            with open(os.path.join(d, 'defs.tex'), 'w', encoding='utf-8') as f:
                f.write(docgen.DEFS)
            run_case(ctx, src, flagged, d, None if 'glossary' in m.features else server, extra_args=['--define', 'defs.tex', '--language', 'en'], nt=nt)
        hyp_run(ctx, small_doc, single, ctx.n(480, 6400))

        # words whose source text is longer than their plain text (accent macro inside, group boundary inside, comment + line break inside)
        rnd = random.Random(ctx.shard_seed + 4)
        for _ in range(ctx.n(160, 3200)):
            src = ''
            cands = []
            nw = 0
            for k in range(rnd.randint(3, 9)):
                nw += 1
                core = ''.join('abcdefghij'[int(dd)] for dd in '%03d' % nw)
                kind = rnd.choice(['plain', 'accent', 'group', 'comment', 'plain', 'emph-inside', 'escaped'])
                if kind == 'escaped' and any(c[0] in ('&', '%') for c in cands):
                    kind = 'plain'
                pre = ''
                if kind == 'plain':
                    stxt, ptxt = 'W' + core + 'q', 'W' + core + 'q'
                elif kind == 'accent':
                    stxt, ptxt = 'W' + core[:2] + '\\"o' + core[2:] + 'q', 'W' + core[:2] + '\u00f6' + core[2:] + 'q'
                elif kind == 'escaped':
                    # a match on the single character of an escaped special maps to its backslash
                    ch = rnd.choice('&%')
                    pre, stxt, ptxt = 'x ', '\\' + ch, ch
                    if ch in src.replace('\\' + ch, ''):
                        ch = None
                elif kind == 'group':
                    pre, stxt, ptxt = '\\emph{', 'W' + core[:2] + '}' + core[2:] + 'q', 'W' + core + 'q'
                elif kind == 'emph-inside':
                    stxt, ptxt = 'W' + core[:1] + '\\emph{' + core[1:] + '}q', 'W' + core + 'q'
                else:
                    stxt, ptxt = 'W' + core[:2] + '%\n' + core[2:] + 'q', 'W' + core + 'q'
                src += pre
                if kind == 'escaped':
                    cands.append((ptxt, len(src), 1))
                else:
                    cands.append((ptxt, len(src), len(stxt)))
                src += stxt + rnd.choice([' ', ' ', '\n', ' und ', '.\n', ' \u2028 ', ' \u2028', ' \\textbf{fett} '])
            src += '\n'
            flagged = rnd.sample(cands, rnd.randint(1, min(4, len(cands))))
            run_case(ctx, src, flagged, d, server, extra_args=['--language', 'en-GB'], nt=len(flagged) >= 2 and any(t[2] != len(t[0]) for t in flagged),
                     family='compound', modes=['plain', 'json', 'xml', 'xml-b'])

        from props import c12_multilang as c12

        def multi(args):
            doc, rthr = args
            fl, thresh, babel = doc
            m = c12.M('en-GB')
            c12.apply_babel(m, babel)
            m.src += '\\newcommand{\\zzoa}[1][]{}\n'
            c12.rend(m, fl, True)
            src = m.src + '\n'
            if not m.words:
                return
            r = random.Random(len(src) * 31 + len(m.words))
            flagged = r.sample(m.words, r.randint(1, min(4, len(m.words))))
            info = {'rule_threshold': rthr, 'ml_disable': 'ML_RULE', 'disable': 'BASE_RULE', 'langs': {w: l for w, o, l in flagged},
                    'lt_options': '--zzopt'}
            nlang = len(set(l for _, _, l in m.words))
            run_case(ctx, src, [(w, o) for w, o, l in flagged], d, None,
                     extra_args=['--multi-language', '--ml-continue-threshold', str(thresh), '--ml-rule-threshold', str(rthr),
                                 '--ml-disable', 'ML_RULE', '--disable', 'BASE_RULE', '--lt-options', '~--zzopt', '--language', 'en-GB'],
                     nt=nlang >= 2 and len(flagged) >= 2, family='multi', ml_info=info)
        hyp_run(ctx, st.tuples(c12.doc_s, st.integers(0, 4)), multi, ctx.n(240, 3600), seed=ctx.shard_seed + 500)
    finally:
        if server is not None:
            server.stop()
