"""C06 - plain prose is a fixed point; special sequences follow the documented table.

Oracle: a reference transducer written from the statement (greedy longest
match over the documented table, output character = table value, position =
offset of the sequence start + 1, every other character copied with its own
offset).  Exhaustive over all atom strings up to a bound, plus random longer
strings, plus Hypothesis st.text() for the fixed-point half.
"""
import itertools
import random

from vlib import sut
from vlib.runner import Violation, hyp_run, sut_frame, watchdog

ID = 'C06'
LEVEL = 'exploration'
RULE = ('strings over the atoms {a x A . , blank newline} + the documented special sequences; '
        'exhaustive up to the tier bound (all three languages en/de/ru; a quarter of the runs with the no-specials option, which must not matter), plus seeded random strings of 20-200 atoms, '
        'plus Hypothesis st.text() without LaTeX-active characters for the fixed-point half; '
        'text AND position list compared with a reference transducer; '
        'non-trivial = a special sequence directly adjacent to another one or to a line break (fixed-point half: '
        'a non-ASCII or non-blank white-space character present); distinct by (string, language)')
ASSUMPTIONS = [
    'strings in which a blank-producing sequence (~ \\, & \\\\) stands on an otherwise blank line are rewritten '
    '(one letter inserted) and counted as excluded: the quantifier assigns that case to C05',
    'the character [ is not in the alphabet (\\\\[..] is an optional argument, not a special sequence)',
    'reference transducer is written from the property statement, not from scanner.py',
]
LEVEL_TEXT = ('Exhaustive enumeration of all strings up to 3 (quick) / 4 (thorough) atoms over the 25-atom alphabet of the statement and up to 4 / 6 atoms over an '
              '8-atom adjacency alphabet, in three languages, plus random long strings and Hypothesis-generated Unicode text; each result (text and map) is compared with '
              'an independent reference transducer. Exhaustive within the bound, sampled beyond it.')
LEVEL_NOTE = 'Trusted: the reference transducer (25 lines, written from the statement). Beyond the length bound the evidence is sampling.'
TECHNIQUE = 'bounded-exhaustive enumeration + random strings + Hypothesis text, differential against a reference transducer'
EXHAUSTIVE = {'quick': True, 'thorough': True}

TABLE = {'---': '\u2014', '--': '\u2013', '``': '\u201c', "''": '\u201d',
         '~': '\xa0', '\\,': '\u202f', '\\%': '%', '\\&': '&', '\\$': '$',
         '\\#': '#', '\\_': '_', '\\{': '{', '\\}': '}', '\\\\': ' ', '&': ' '}
BLANKING = ('~', '\\,', '&', '\\\\')
PLAIN_ATOMS = ['a', 'x', 'A', '.', ',', ' ', '\n']
SEQ_ATOMS = ['-', '--', '---', '`', '``', "'", "''", '~', '\\,', '\\%', '\\&',
             '\\$', '\\#', '\\_', '\\{', '\\}', '\\\\', '&']
ATOMS = PLAIN_ATOMS + SEQ_ATOMS          # 25 atoms
SUB = ['-', "'", '`', 'x', ' ', '\n', '~', '\\\\']
LANGS = ['en', 'de', 'ru']
KEYS = sorted(TABLE, key=lambda s: -len(s))


def reference(src):
    out = []
    pos = []
    i = 0
    n = len(src)
    while i < n:
        for k in KEYS:
            if src.startswith(k, i):
                out.append(TABLE[k])
                pos.append(i + 1)
                i += len(k)
                break
        else:
            out.append(src[i])
            pos.append(i + 1)
            i += 1
    return ''.join(out), pos


def tokens_ref(src):
    """list of (kind, text) with kind 'S' for table sequences, 'C' other"""
    res = []
    i = 0
    while i < len(src):
        for k in KEYS:
            if src.startswith(k, i):
                res.append(('S', k))
                i += len(k)
                break
        else:
            res.append(('C', src[i]))
            i += 1
    return res


def blank_line_with_sequence(src):
    """True if some line holds only white space and blank-producing sequences,
    at least one of the latter (the case the quantifier hands to C05)"""
    line = []
    toks = tokens_ref(src) + [('C', '\n')]
    for kind, t in toks:
        if kind == 'C' and t == '\n':
            if line and all((k == 'S' and x in BLANKING) or (k == 'C' and x.isspace())
                            for k, x in line) and any(k == 'S' for k, x in line):
                return True
            line = []
        else:
            line.append((kind, t))
    return False


def nontrivial(src):
    toks = tokens_ref(src)
    for i, (k, t) in enumerate(toks):
        if k != 'S':
            continue
        for j in (i - 1, i + 1):
            if 0 <= j < len(toks) and (toks[j][0] == 'S' or toks[j][1] == '\n'):
                return True
    return False


def check(src, lang, pack=None, nosp=False):
    exp_t, exp_p = reference(src)
    try:
        with watchdog(20):
            (plain, cmap), err = sut.tex2txt(src, lang=lang, pack=pack, nosp=nosp)
    except Exception as e:
        raise Violation('exception:' + sut_frame(e), {'src': src, 'lang': lang, 'pack': pack}, repr(e))
    case = {'src': src, 'lang': lang, 'pack': pack, 'nosp': nosp}
    if plain != exp_t:
        raise Violation('text-differs', case, {'expected': exp_t, 'actual': plain})
    if list(cmap) != exp_p:
        raise Violation('map-differs', case, {'text': plain, 'expected': exp_p, 'actual': list(cmap)})
    if err:
        raise Violation('stderr-not-empty', case, err)


def replay(case):
    if blank_line_with_sequence(case['src']):
        return None
    try:
        check(case['src'], case.get('lang'), case.get('pack'), case.get('nosp', False))
    except Violation as v:
        return v
    return None


def run_atoms(ctx, atoms, lang, pack=None):
    src = ''.join(atoms)
    if blank_line_with_sequence(src):
        ctx.stats.excluded['blank-line-with-sequence (C05 domain)'] += 1
        src = 'a'.join(atoms) + 'a'
        if blank_line_with_sequence(src):
            return
    try:
        # the no-specials option only concerns \\LTadd & Co. and the skip comments: prose and the table are untouched
        check(src, lang, pack, nosp=(len(src) + len(atoms)) % 4 == 0)
    except Violation as v:
        ctx.violation(v)
    nt = nontrivial(src)
    ctx.stats.case(key=(src, lang), nontrivial=nt,
                   classes=('special-half',) + (('adjacent-sequences',) if nt else ()),
                   sample={'src': src, 'lang': lang})


def run_shard(ctx):
    quick = ctx.tier == 'quick'
    # (a) exhaustive bounded part, full alphabet
    L = 3 if quick else 4
    idx = 0
    for n in range(1, L + 1):
        for atoms in itertools.product(ATOMS, repeat=n):
            idx += 1
            if idx % ctx.nshards != ctx.shard:
                continue
            langs = LANGS if n <= 3 else [LANGS[idx // ctx.nshards % 3]]
            for lang in langs:
                run_atoms(ctx, atoms, lang)
            if ctx.too_many():
                return
    ctx.stats.extra['exhaustive_full_alphabet_max_atoms'] = L
    # (b) exhaustive over the adjacency sub-alphabet
    L2 = 4 if quick else 6
    for n in range(1, L2 + 1):
        for atoms in itertools.product(SUB, repeat=n):
            idx += 1
            if idx % ctx.nshards != ctx.shard:
                continue
            run_atoms(ctx, atoms, LANGS[idx // ctx.nshards % 3], pack='*' if idx % 2 else None)
            if ctx.too_many():
                return
    ctx.stats.extra['exhaustive_sub_alphabet_max_atoms'] = L2
    # (c) random longer strings
    rnd = random.Random(ctx.shard_seed)
    for i in range(ctx.n(6000, 60000)):
        n = rnd.randint(20, 200)
        atoms = [rnd.choice(ATOMS) if rnd.random() < 0.5 else rnd.choice(PLAIN_ATOMS) for _ in range(n)]
        run_atoms(ctx, atoms, rnd.choice(LANGS), pack=rnd.choice([None, '*', '']))
        if ctx.too_many():
            return
    # (d) fixed-point half over full Unicode
    from hypothesis import strategies as st
    active = '\\{}$&#^_~%"'
    txt = st.text(alphabet=st.characters(blacklist_characters=active,
                                         blacklist_categories=('Cs',)), max_size=60)

    def fp(args):
        s, lang = args
        for bad in ('--', '``', "''"):
            while bad in s:
                s = s.replace(bad, bad[0] + 'x' + bad[0])
        try:
            with watchdog(20):
                (plain, cmap), err = sut.tex2txt(s, lang=lang, nosp=len(s) % 3 == 0)
        except Exception as e:
            raise Violation('exception:' + sut_frame(e), {'src': s, 'lang': lang}, repr(e))
        if plain != s or list(cmap) != list(range(1, len(s) + 1)) or err:
            raise Violation('fixed-point', {'src': s, 'lang': lang},
                            {'plain': plain, 'map': list(cmap), 'stderr': err})
        nt = any(ord(c) > 127 or (c.isspace() and c not in ' \n') for c in s)
        ctx.stats.case(key=(s, lang), nontrivial=nt, classes=('fixed-point-half',),
                       sample={'src': s, 'lang': lang})

    hyp_run(ctx, st.tuples(txt, st.sampled_from(LANGS)), fp, ctx.n(8000, 200000))
