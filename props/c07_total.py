"""C07 - the filter is total: arbitrary input never crashes or hangs it.

Generators: (1) token soup over the full vocabulary of declared macros and
environments, (2) argument-shape enumeration per catalogue macro, (3) every
prefix and every single-token deletion of generated well-formed documents,
(4, thorough) coverage-guided fuzzing with atheris over vocabulary indices.
Oracle: the call returns a (text, map) pair or a dictionary of parts; any
exception, fatal exit or confirmed hang is a violation, bucketed by
(exception type, innermost yalafi frame).
"""
import random

from vlib import soup, sut
from vlib.runner import CaseTimeout, Violation, sut_frame, watchdog

ID = 'C07'
LEVEL = 'fault_enumeration'
RULE = ('(1) seeded token soups of 1-14 tokens over ~330 vocabulary entries (every declared macro, \\begin/\\end of every environment, braces, brackets, maths delimiters, '
        '#, &, \\\\, %, LT-SKIP comments, accents, shorthands, complete non-recursive definition fragments) x random option vectors; '
        '(2) argument-shape enumeration: for every catalogue macro/environment the product over its declared slots of '
        "{absent,{},[],{x},[x],*,{x unclosed,[x unclosed,}} x followers {EOF,' a',},blank line,$} (complete up to the tier's slot bound, sampled above); "
        '(3) every token prefix and every single-token deletion of generated well-formed documents; (4, thorough tier) one atheris / libFuzzer campaign per shard over vocabulary indices. '
        'non-trivial = the input is malformed by an independent test (unbalanced braces/environments/maths, stray #) AND names a declared macro or environment; distinct by (source, options)')
ASSUMPTIONS = [
    'definition commands occur in soups only as complete, non-recursive, non-duplicating fragments (self-calling and argument-multiplying definitions are outside the claim)',
    'a hang is a case that exceeds 10 s (normal cost 3-10 ms) and again 60 s when re-run alone',
    'SystemExit counts as violation unless stderr carries the documented fatal text for a redefined default equation environment',
    'options that load user Python modules (--pack .mod) are outside the domain',
]
LEVEL_TEXT = ('Fault enumeration: malformed inputs are enumerated systematically (all argument shapes per declared macro; all truncation points and single-token deletions '
              'of generated documents) and sampled (token soups) under random option vectors; the oracle is "returns normally". Exceptions are bucketed by root cause.')
LEVEL_NOTE = 'Absence of crashes is not established beyond the enumerated shapes; hang detection is a watchdog with >1000x slack plus single-case confirmation.'
TECHNIQUE = 'PRNG token-soup fuzzing + bounded-exhaustive argument-shape enumeration + prefix/deletion fault injection (+ atheris coverage-guided fuzzing in the thorough tier)'

DOCUMENTED_FATAL = ("no environment for '$$'", 'is not an EquEnv')


LANG_ARGS = ['{\\foreignlanguage{french}{e}}', '\\selectlanguage{german}', '{\\selectlanguage{german}e}',
             '{\\begin{otherlanguage}{german}e\\end{otherlanguage}}']


def execute(src, kw, ml, thresh, limit=10):
    """returns ('ok', result, stderr) | ('exception', bucket, text) | ('exit', stderr) | ('timeout',)"""
    import io
    import sys
    err = io.StringIO()
    try:
        with watchdog(limit):
            old = sys.stderr
            sys.stderr = err
            try:
                opts = sut.Options(**kw)
                mod = None
                if thresh is not None:
                    def mod(p):
                        p.ml_continue_thresh = thresh
                r = sut._t2t.tex2txt(src, opts, multi_language=ml, modify_parms=mod)
            finally:
                sys.stderr = old
        return ('ok', r, err.getvalue())
    except CaseTimeout:
        return ('timeout',)
    except SystemExit:
        return ('exit', err.getvalue()[-300:])
    except RecursionError as e:
        return ('exception', 'RecursionError@' + sut_frame(e).split('@')[-1], repr(e))
    except Exception as e:
        return ('exception', sut_frame(e), repr(e))


_hangs = [0]


def verdict(src, kw, ml, thresh, confirm=True):
    """Violation or None"""
    case = {'src': src, 'opts': kw, 'ml': ml, 'thresh': thresh}
    r = execute(src, kw, ml, thresh)
    if r[0] == 'timeout':
        _hangs[0] += 1
        if confirm and _hangs[0] == 1:
            r2 = execute(src, kw, ml, thresh, limit=60)
            if r2[0] != 'timeout':
                return verdict_of(r2, case)
        return Violation('hang', case, 'no result within 10 s and within 60 s when re-run alone')
    return verdict_of(r, case)


def verdict_of(r, case):
    if r[0] == 'ok':
        res = r[1]
        if case['ml']:
            good = isinstance(res, dict) and all(
                isinstance(p, list) and len(p) == 2 and isinstance(p[0], str)
                for v in res.values() for p in v)
        else:
            good = isinstance(res, tuple) and len(res) == 2 and isinstance(res[0], str)
        if not good:
            return Violation('result-shape', case, repr(res)[:300])
        return None
    if r[0] == 'exit':
        if any(d in r[1] for d in DOCUMENTED_FATAL):
            return None
        return Violation('fatal-exit:' + r[1].strip().splitlines()[-1][:60] if r[1].strip() else 'fatal-exit', case, r[1])
    if r[0] == 'exception':
        return Violation('exception:' + r[1], case, r[2])
    return Violation('hang', case, None)


def replay(case):
    return verdict(case['src'], case['opts'], case['ml'], case.get('thresh'))


def declared_in(src):
    macros, envs = soup.catalogue()
    import re
    for m in re.findall(r'\\[a-zA-Z@]+|\\.', src):
        if m in macros or m in ('\\begin', '\\end', '\\item', '\\verb'):
            return True
    return False


def record(ctx, src, kw, ml, thresh, cls, v):
    nt = soup.is_malformed(src) and declared_in(src)
    if v is not None:
        ctx.violation(v)
    st = ctx.stats
    st.case(key=(src, sorted((k, str(x)) for k, x in kw.items()), ml), nontrivial=nt,
            classes=[cls] + ([cls + ':malformed'] if nt else []) + (['multi-language'] if ml else []),
            sample={'src': src, 'opts': {k: x for k, x in kw.items() if x}, 'ml': ml, 'generator': cls})


def run_shard(ctx):
    import os
    from vlib import docprop
    docprop.run_source('')     # scratch files for \\LTinput & Co.
    os.chdir(sut.scratch_dir())
    rnd = random.Random(ctx.shard_seed)
    quick = ctx.tier == 'quick'

    # (1) token soup
    for i in range(ctx.n(80000, 666666)):
        src = soup.gen_soup(rnd)
        kw, ml, thresh = soup.draw_options(rnd)
        if i % 2:
            kw['pack'] = rnd.choice(['*', '*,cleveref'])
        record(ctx, src, kw, ml, thresh, 'soup', verdict(src, kw, ml, thresh))
        if ctx.too_many():
            return

    # (2) argument shapes
    targets = soup.shape_targets()
    full_slots = 2 if quick else 4
    sample_n = 600 if quick else 15000
    idx = 0
    for head, args, name in targets:
        limit = None if len(args) <= full_slots else sample_n
        for src in soup.shapes_for(head, args, rnd=random.Random(ctx.seed * 7919 + hash_name(name)), limit=limit):
            idx += 1
            if idx % ctx.nshards != ctx.shard:
                continue
            kw = dict(lang=('de' if idx % 5 == 0 else 'en'), pack='*,cleveref' if idx % 3 else '*',
                      dcls='scrartcl' if idx % 4 == 0 else None)
            ml = idx % 7 == 0
            record(ctx, src, kw, ml, None, 'shape', verdict(src, kw, ml, None))
            if ctx.too_many():
                return
    # arguments that begin with a language switch, multi-language mode (seeded change C07-C)
    for head, args, name in targets:
        for k in range(len(args)):
            if args[k] not in 'AO':
                continue
            for sw in LANG_ARGS:
                idx += 1
                if idx % ctx.nshards != ctx.shard:
                    continue
                a = ''.join((sw if args[j] == 'A' else '[' + sw + ']') if j == k else ('{x}' if args[j] == 'A' else '') for j in range(len(args)))
                src = 'A ' + head + a + ' b'
                kw = dict(lang='en', pack='*,cleveref')
                record(ctx, src, kw, True, None, 'language-switch-argument', verdict(src, kw, True, None))
                if ctx.too_many():
                    return
    for src in soup.keyval_shapes(random.Random(ctx.seed * 31 + 5), full3=not quick):
        idx += 1
        if idx % ctx.nshards != ctx.shard:
            continue
        kw = dict(lang='en', pack='*,cleveref' if idx % 2 else '*', dcls='scrartcl' if idx % 4 == 0 else None)
        record(ctx, src, kw, idx % 5 == 0, None, 'keyval-shape', verdict(src, kw, idx % 5 == 0, None))
        if ctx.too_many():
            return
    for i in range(ctx.n(20000, 200000)):
        src = soup.definition_shape(rnd)
        kw = dict(lang=rnd.choice(['en', 'de']), pack=rnd.choice([None, '*']))
        ml = rnd.random() < 0.2
        record(ctx, src, kw, ml, None, 'definition-shape', verdict(src, kw, ml, None))
        if ctx.too_many():
            return
    for i in range(ctx.n(20000, 200000)):
        src = soup.wrapped_shape(rnd, targets)
        kw = dict(lang=rnd.choice(['en', 'de']), pack='*,cleveref')
        ml = rnd.random() < 0.2
        record(ctx, src, kw, ml, None, 'construct-in-macro-body', verdict(src, kw, ml, None))
        if ctx.too_many():
            return
    ctx.stats.extra['shape_enumeration_complete_up_to_slots'] = full_slots
    ctx.stats.extra['shape_targets'] = len(targets)

    # (3) prefixes and deletions of well-formed documents
    try:
        from props import c07_faults
    except ImportError:
        c07_faults = None
    if c07_faults is not None:
        c07_faults.run(ctx, rnd, record, verdict)

    # (4) coverage-guided fuzzing (thorough tier only)
    if not quick:
        try:
            from props import c07_atheris
        except ImportError:
            c07_atheris = None
        if c07_atheris is not None:
            c07_atheris.run(ctx, record, verdict)


def hash_name(name):
    h = 0
    for c in name:
        h = (h * 131 + ord(c)) % 1000003
    return h
