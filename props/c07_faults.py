"""C07 generator 3: every token prefix and every single-token deletion of generated well-formed documents."""
import re

from vlib import docgen, soup
from vlib.runner import hyp_run

TOKEN = re.compile(r'\\[a-zA-Z@]+|\\.|%[^\n]*\n?|\s+|.', re.S)
small = docgen.st.tuples(docgen.st.recursive(docgen.leaf_flow, docgen.mkflow, max_leaves=7), docgen.st.sampled_from(['', '\n']))


def tokens(src, start):
    return [(m.start(), m.end()) for m in TOKEN.finditer(src, start)]


def run(ctx, rnd, record, verdict):
    from vlib import docprop
    docprop.run_source('')      # scratch files
    pre = len(docgen.PREAMBLE)
    opts = [dict(lang='en', pack='*', defs=docgen.DEFS), dict(lang='de', pack='*'), dict(lang='en', pack='*,cleveref', dcls='article')]

    def one(doc):
        m = docgen.build(doc, {'no_definers': True})
        src = m.source()
        toks = tokens(src, pre)
        k = len(src) % 3
        kw = opts[k]
        ml = len(src) % 5 == 0
        for a, b in toks:
            for variant, s in (('prefix', src[:a]), ('deletion', src[:a] + src[b:])):
                if variant == 'prefix' and a == pre:
                    continue
                record(ctx, s, kw, ml, None, variant, verdict(s, kw, ml, None))
            if b - a > 2 and src[a] == '\\':
                record(ctx, src[:a + 2], kw, ml, None, 'prefix', verdict(src[:a + 2], kw, ml, None))
        # a few cuts inside the preamble (definitions left open)
        for cut in (pre - 2, pre - 40, pre // 2, 30):
            record(ctx, src[:cut], kw, ml, None, 'prefix', verdict(src[:cut], kw, ml, None))
    hyp_run(ctx, small, one, ctx.n(320, 6666), seed=ctx.shard_seed + 300)
