"""C02 - copied text maps to exactly the offset where it stands (annotated document generator)."""
from vlib import docprop

ID = 'C02'
LEVEL = 'exploration'
RULE = docprop.RULE_PREFIX + ('oracle: every character of every copied word, \\verb / verbatim content and replaced sequence carries exactly the predicted 1-based source offset '
        '(source[p-1] == character AND p == offset of that very occurrence; replaced sequences: offset of the first character of the sequence). '
        'non-trivial = the document contains a construct that removes or generates characters in front of some copied word (so the identity map is wrong) ; distinct by source text')
ASSUMPTIONS = docprop.ASSUMPTIONS + ['if the output sequence differs from the prediction (a C03 matter) only whole unique words are located and checked']
LEVEL_TEXT = ('Generated search; the renderer knows the exact source offset of every copied character, the oracle compares the returned position list with it, character by character.')
LEVEL_NOTE = 'Trusted: the renderer/annotation code (docgen.py). Sampling only.'
TECHNIQUE = 'Hypothesis tree-structured document generator + exact per-character position oracle'


def judge(m, v, case):
    if v.c02:
        return 'copied-text-position', v.c02[:5]
    return None


def nontrivial(m, v):
    return v.aligned and bool(m.features & {'vanish', 'gen', 'pass', 'detached', 'removed-env', 'skip-region', 'comment', 'heading', 'list'})


def classes(m, v):
    return sorted(m.features & {'verb', 'verbatim', 'special', 'accent', 'detached', 'usermacro', 'own-line-brace', 'comment', 'removed-env', 'skip-region'})


run_shard, replay = docprop.make(ID, judge, nontrivial, classes, quick=40000, thorough=333333)
