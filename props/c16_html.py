"""C16 - HTML report: faithful source, each match once, content cannot break the markup.

In-process through yalafi.shell.genhtml.generate_html with exactly the
preconditions run_proofreader_options establishes (delimiter padding of the
map, matches sorted by LaTeX position, source ending in a line break), in
plain-input mode (identity map) and through the filter; plus an end-to-end
sample through `python -m yalafi.shell --output html`.
The report is parsed with html.parser (independent of genhtml.py).
"""
import importlib
import os
import re
import types

from hypothesis import strategies as st

from vlib import htmlparse, sut
from vlib.runner import Violation, hyp_run, sut_frame, watchdog

ID = 'C16'
LEVEL = 'exploration'
RULE = ('Hypothesis: sources over letters, < > & " \' tab, blank, line break, backslash, braces, %, literal &amp; and <b>, long and empty lines; 0-5 matches produced as the shell produces them '
        '(identity map with delimiter padding, or the map of the filter), overlapping, adjacent, nested, multi-line, zero-length, on the first/last character; messages, suggestions, rule ids and '
        'context excerpts containing < > & " "><script> </span> <br>; context sizes -1, 0, 1, 2, 5. oracle on the parsed report: tag whitelist; span carries only style/title; decoded title == composed '
        'message; each numbered row == that source line; numbers 1..n for negative context; every match exactly once (in place or in the overlap list) with highlighted text == source span it maps to. '
        'non-trivial = at least two matches in one region, or HTML-special characters inside a highlighted span or a message; distinct by (source, matches, context)')
RULE += ' Additions: per-cent signs and backslash sequences in messages; the number in front of an overlap-list entry is the line of its match; shell sample with files lacking the final line break.'
ASSUMPTIONS = [
    'messages, suggestions and contexts may contain line breaks (they stay line breaks inside the title text)',
    'matches lie inside the submitted text (offset + length <= len(text)); matches touching the padded map entries cannot come from a proofreader',
    'option --link is off: URLs are not in the list of the statement',
]
LEVEL_TEXT = ('Generated search on the HTML generator with a parser-based oracle: whatever the source and the proofreader messages contain, the parsed report must reproduce the source lines, '
              'show each match once with the right text, and contain no markup other than the generator\'s own.')
LEVEL_NOTE = 'Trusted: html.parser and the 80-line report model. Sampling only.'
TECHNIQUE = 'Hypothesis generated sources/match sets, HTML re-parsing oracle (round trip to source lines), in-process plus subprocess sample'

ALLOWED_TAGS = {'a', 'h3', 'table', 'tr', 'td', 'span', 'br'}
HOSTILE = ['a\nb', '<', '>', '&', '"', '"><script>alert(1)</script>', '</span>', '<br>', '&amp;', '&lt;', "'", ' ', 'x', 'Fehler', 'é',
           '%', '50% of', '%s', '%%', '\\', '\\1', '\\dots', '\\g<1>']
SRC = ['a', 'b', 'Wort', ' ', ' ', '\n', '\n', '\t', '<', '>', '&', '"', "'", '\\', '{', '}', '%', '&amp;', '<b>', '</td>', '\\textbf', 'é',
       'x' * 40, '\n\n', '<br>', '  ', '\x0c', '\u2028', '\x0b', '\x85', '\x1c', '\\%', '\\&', '\\subsubsection']
src_s = st.lists(st.sampled_from(SRC), min_size=1, max_size=30).map(''.join)
msg_s = st.lists(st.sampled_from(HOSTILE), min_size=1, max_size=5).map(''.join)
match_s = st.tuples(st.integers(0, 10 ** 6), st.integers(0, 12), msg_s, st.lists(msg_s, max_size=2), msg_s, st.integers(0, 3), st.integers(0, 6),
                    st.sampled_from(['RULE', 'R<1>', 'A&B', 'Q"']), st.booleans())
case_s = st.tuples(src_s, st.lists(match_s, max_size=5), st.sampled_from([-1, 0, 1, 2, 5]), st.booleans())

_mod = None


def genhtml():
    global _mod
    if _mod is None:
        _mod = importlib.import_module('yalafi.shell.genhtml')
        if not os.path.realpath(_mod.__file__).startswith(sut.REPO + os.sep):
            raise sut.HarnessError('genhtml from wrong tree')
    return _mod


def json_get(dic, item, typ):
    if not isinstance(dic, dict) or not isinstance(dic.get(item), typ):
        raise SystemExit(1)
    return dic.get(item)


def build(case):
    """-> tex, plain_tot, charmap_tot, matches (sorted), as run_proofreader_options does"""
    src, ms, context, through_filter = case
    tex = src if src.endswith('\n') else src + '\n'
    if through_filter:
        (plain, cmap), _ = sut.tex2txt(tex, lang='en', pack='*')
        cmap = list(cmap)
    else:
        plain, cmap = tex, list(range(1, len(tex) + 1))
    if not plain.strip():
        return tex, '', [], []
    charmap = cmap + [cmap[-1]] * 2
    matches = []
    for k, (o, ln, msg, repls, ctx, co, cl, rule, sub) in enumerate(ms):
        off = o % len(plain)
        ln = min(ln, len(plain) - off)
        ctxt = ctx + 'CTX' + ctx
        co = min(co, len(ctxt))
        cl = min(cl, len(ctxt) - co)
        m = {'offset': off, 'length': ln, 'message': 'M%d:' % k + msg, 'replacements': [{'value': r} for r in repls],
             'context': {'text': ctxt, 'offset': co, 'length': cl}, 'rule': {'id': rule, 'category': {'name': 'C'}}}
        if sub:
            m['rule']['subId'] = '7'
        matches.append(m)
    matches.sort(key=lambda m: abs(charmap[m['offset']]))
    return tex, plain, charmap, matches


def en(s):
    return s.replace('\t', ' ' * 8).replace(' ', ' ')


def expected_title(m, lin):
    c = m['context']
    txt = c['text']
    beg, end = c['offset'], c['offset'] + c['length']
    rid = m['rule']['id'] + ('[' + m['rule']['subId'] + ']' if 'subId' in m['rule'] else '')
    t = en(m['message']) + '\n'
    t += en('Line %d: >>>%s<<<' % (lin, txt[beg:end]))
    t += en('    (Rule ID: ' + rid + ')') + '\n'
    t += 'Suggestion: ' + en('; '.join(r['value'] for r in m['replacements'])) + '\n'
    t += 'Context: ' + en(txt[:beg] + '>>>' + txt[beg:end] + '<<<' + txt[end:])
    return t


def source_span(tex, charmap, m):
    beg = m['offset']
    end = beg + max(1, m['length'])
    b = charmap[beg] - 1
    e = charmap[max(beg, end - 1)]
    if e <= b:
        e = b + 1
    if e == b + 1 and tex[b] == '\\':
        mm = re.match(r'\\[A-Za-z]+', tex[b:])
        if mm:
            e = b + len(mm.group(0))
    return b, e


def verify(html, tex, charmap, matches, context, case, file='t.tex'):
    rep = htmlparse.parse(html)
    det = {'html': html[:3000]}
    for tag, attrs in rep.tags:
        if tag not in ALLOWED_TAGS and tag not in ('html', 'head', 'meta', 'body', 'ul', 'li', 'hr', 'h2'):
            raise Violation('foreign-tag-in-report', case, dict(det, tag=tag))
        if tag == 'span' and set(k for k, _ in attrs) - {'style', 'title'}:
            raise Violation('span-with-foreign-attribute', case, dict(det, attrs=attrs))
    if rep.errors:
        raise Violation('broken-span-structure', case, dict(det, errors=rep.errors))
    lines = tex.split('\n')[:-1]
    main = [t for t in rep.tables if not t['overlap']]
    over = [t for t in rep.tables if t['overlap']]
    if len(main) > 1 or len(over) > 1 or (matches and len(main) != 1):
        raise Violation('unexpected-table-structure', case, det)
    if not main:
        main = [{'rows': []}]
    seen_numbers = []
    spans = []          # (title, text, line number or None)
    for num, segs in main[0]['rows']:
        num = num.replace('\xa0', '').strip()
        text = htmlparse.norm(''.join(t for t, _ in segs))
        if num == '':
            if text.strip('  '):
                raise Violation('text-in-unnumbered-row', case, dict(det, row=text))
            continue
        if not num.isdigit() or not (1 <= int(num) <= len(lines)):
            raise Violation('line-number-out-of-file', case, dict(det, number=num))
        n = int(num)
        seen_numbers.append(n)
        if text != htmlparse.norm_src(lines[n - 1]):
            raise Violation('row-differs-from-source-line', case, dict(det, number=n, row=text, source_line=lines[n - 1]))
        for t, title in segs:
            if title is not None:
                spans.append((title, htmlparse.norm(t), n))
    if context < 0 and matches and seen_numbers != list(range(1, len(lines) + 1)):
        raise Violation('negative-context-does-not-show-whole-file', case, dict(det, numbers=seen_numbers, lines=len(lines)))
    if any(b <= a for a, b in zip(seen_numbers, seen_numbers[1:])):
        raise Violation('line-numbers-not-increasing', case, dict(det, numbers=seen_numbers))
    ospans = []
    if over:
        for num, segs in over[0]['rows']:
            for t, title in segs:
                if title is not None:
                    ospans.append((title, htmlparse.norm(t), num.replace('\xa0', '').strip()))
    titles_main = []
    for title, _, _ in spans:
        if not titles_main or titles_main[-1] != title:
            titles_main.append(title)
    titles_over = []
    for title, _, _ in ospans:
        if not titles_over or titles_over[-1] != title:
            titles_over.append(title)
    for k, m in enumerate(matches):
        b, e = source_span(tex, charmap, m)
        lin = tex.count('\n', 0, b) + 1
        want_title = expected_title(m, lin)
        where = [s for s in spans if s[0] == want_title]
        where_o = [s for s in ospans if s[0] == want_title]
        md = dict(det, match=m, expected_title=want_title, titles=titles_main + titles_over)
        if bool(where) == bool(where_o):
            raise Violation('match-not-shown-exactly-once', case, md)
        n_groups = (titles_main + titles_over).count(want_title)
        if n_groups != 1:
            raise Violation('match-not-shown-exactly-once', case, md)
        got = ''.join(s[1] for s in (where or where_o))
        want = htmlparse.norm_src(tex[b:e]).replace('\n', '')
        if got != want:
            raise Violation('highlighted-text-differs-from-source-span', case, dict(md, highlighted=got, source_span=tex[b:e]))
        if where and where[0][2] != lin:
            raise Violation('highlight-in-wrong-line', case, dict(md, line=where[0][2], expected_line=lin))
        if where_o and where_o[0][2] != str(lin):
            # the number in front of an entry of the overlap list is the line of the match (seeded change C14-H)
            raise Violation('overlap-entry-with-wrong-line-number', case, dict(md, line=where_o[0][2], expected_line=lin))
    if len(set(titles_main + titles_over)) != len(matches):
        raise Violation('number-of-highlights-differs-from-number-of-matches', case, dict(det, titles=titles_main + titles_over))
    return rep


def check(case):
    tex, plain, charmap, matches = build(case)
    context = case[2]
    rc = {'case': case}
    if not plain:
        return None
    g = genhtml()
    cmd = types.SimpleNamespace(context=int(1e8) if context < 0 else context, link=False, file=['t.tex'], server='')
    g.init(types.SimpleNamespace(json_get=json_get, cmdline=cmd, highlight_style='background: orange; border: solid thin black',
                                 number_style='color: grey', msg_LT_server_html=''))
    import copy
    try:
        with watchdog(20):
            title, anchor, html, n = g.generate_html(tex, charmap, copy.deepcopy(matches), 't.tex')
    except (Exception, SystemExit) as e:
        raise Violation('exception:' + sut_frame(e), rc, repr(e))
    verify(html, tex, charmap, matches, context, rc)
    special = set('<>&"')
    hostile_span = any(special & set(tex[slice(*source_span(tex, charmap, m))]) for m in matches)
    hostile_msg = any(special & set(m['message'][3:]) for m in matches)
    nt = len(matches) >= 2 or hostile_span or hostile_msg
    cl = ['through-filter' if case[3] else 'plain-input', 'context:%d' % context]
    if hostile_span:
        cl.append('special-characters-highlighted')
    if '<H3>Overlapping' in html:
        cl.append('overlap-list')
    if any('\n' in tex[slice(*source_span(tex, charmap, m))] for m in matches):
        cl.append('multi-line-match')
    if any(m['length'] == 0 for m in matches):
        cl.append('zero-length-match')
    return nt, cl, len(matches)


def replay(case):
    from vlib.docprop import untuple
    try:
        if 'shell' in case:
            from props import c16_shell
            c16_shell.check(case)
        else:
            check(untuple(case['case']))
    except Violation as v:
        return v
    return None


def run_shard(ctx):
    def one(case):
        r = check(case)
        if r is None:
            return
        nt, cl, n = r
        ctx.stats.case(key=case, nontrivial=nt, classes=cl,
                       sample={'source': case[0], 'matches': [(m[0] % max(1, len(case[0])), m[1], m[2]) for m in case[1]], 'context': case[2]})
    hyp_run(ctx, case_s, one, ctx.n(30000, 600000))
    try:
        from props import c16_shell
    except ImportError:
        return
    c16_shell.run(ctx)
