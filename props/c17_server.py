"""C17, server part: request sequences to one `python -m yalafi.shell --as-server` process,
each response compared with the response of a freshly started server to that request alone."""
import json
import os
import random

import hypothesis
from hypothesis import HealthCheck, settings, strategies as st
from hypothesis.stateful import RuleBasedStateMachine, rule, run_state_machine_as_test

from props import c17_history as h
from props.c14_report import Server
from vlib import sut
from vlib.runner import Violation

REQS = [
    ('en-GB', '\\newcommand{\\zzp}{Wdefq} Waaaq \\zzp Waabq\n', {}),
    ('en-GB', 'Waaaq \\zzp Waabq\n', {}),
    ('en-GB', '\\LTinput{zz.glsdefs} \\gls{lab} Waacq\n', {}),
    ('en-GB', 'Waadq \\gls{lab} Waaeq\n', {}),
    ('de-DE', '\\usepackage[german]{babel} "a Waafq\n', {}),
    ('en-GB', '"a Waagq\n', {}),
    ('en-GB', '$a$ $b$ $c$ $d$ Waahq\n', {}),
    ('en-GB', '$a$ Waaiq\n', {}),
    ('en-GB', 'Waajq \\footnote{Wabaq}\n', {'disabledRules': 'XRULE'}),
    ('en-GB', 'Wabbq\n', {}),
    ('ru-RU', '\\[a\\] \\[b\\] Wabcq\n', {'enabledRules': 'YRULE', 'enabledOnly': 'true'}),
    ('ru-RU', '\\[a.\\] Wabdq\n', {}),
    ('en-GB', '\\renewcommand{\\LaTeX}{Wabeq} \\LaTeX\n', {}),
    ('en-GB', '\\LaTeX{} Wabfq\n', {}),
    ('en-GB', '\\begin{enumerate}\\item Wabgq \\begin{enumerate}\\item Wabhq\n', {}),
    ('en-GB', '\\item Wabiq\n', {'disabledCategories': 'CAT'}),
    ('en-GB', 'Waaaq so dass Wabjq\n', {}),
    ('en-GB', 'so dass Waaaq Wacaq\n', {}),
]
SRV_ARGS = ['--lt-options', '~--disable SRVRULE --enable SRVON --zzopt', '--single-letters', 'a|I', '--replace', 'zzrepl.txt']
_ref = {}


def workdir():
    return h.workdir()


_ask = [0]


def ask(server, i, retry=True):
    lang, text, extra = REQS[i]
    d = server.dir
    # a fresh log file per request: a proofreader process that is still running for an
    # earlier request (possible under heavy load) cannot write into this one
    _ask[0] += 1
    log = os.path.join(d, 'srvlog-%d-%d.jsonl' % (os.getpid(), _ask[0]))
    with open(server.plan_file, 'w') as f:
        json.dump({'mode': 'flag_words', 'words': ['Wa', 'Wd'], 'log': log}, f)
    try:
        resp = server.request(text, lang, extra)
    except Exception as e:
        resp = {'request_failed': type(e).__name__}
    argv = []
    if os.path.exists(log):
        argv = [json.loads(l)['argv'] for l in open(log, encoding='utf-8')]
        os.unlink(log)
    if not argv and isinstance(resp, dict) and resp.get('matches') and retry:
        return ask(server, i, retry=False)      # log not there (seen once under heavy load): ask again
    return {'response': resp, 'proofreader_argv': argv}


def reference(i):
    if i not in _ref:
        s = Server(workdir(), SRV_ARGS)
        if not s.start():
            raise RuntimeError('cannot start server')
        try:
            _ref[i] = ask(s, i)
        finally:
            s.stop()
    return _ref[i]


STATS = []
LAST = []


class ServerHistory(RuleBasedStateMachine):
    def __init__(self):
        super().__init__()
        self.s = Server(workdir(), SRV_ARGS)
        if not self.s.start():
            raise RuntimeError('cannot start server')
        self.seq = []

    def _do(self, i):
        self.seq.append(i)
        got = ask(self.s, i)
        want = reference(i)
        if got != want:
            v = Violation('server-response-depends-on-history', {'requests': list(self.seq)},
                          {'request': REQS[i], 'fresh_server': want, 'after_history': got})
            LAST.append(v)
            raise v

    @rule(i=st.integers(0, len(REQS) - 1))
    def request(self, i):
        self._do(i)

    @rule(k=st.integers(0, len(REQS) // 2 - 1))
    def pair(self, k):
        self._do(2 * k)
        self._do(2 * k + 1)

    def teardown(self):
        self.s.stop()
        STATS.append(list(self.seq))


def replay(case):
    s = Server(workdir(), SRV_ARGS)
    if not s.start():
        return Violation('harness', case, 'cannot start server')
    done = []
    try:
        for i in case['requests']:
            done.append(i)
            got = ask(s, i)
            want = reference(i)
            if got != want:
                return Violation('server-response-depends-on-history', {'requests': done},
                                 {'request': REQS[i], 'fresh_server': want, 'after_history': got})
    finally:
        s.stop()
    return None


def run(ctx):
    n = ctx.n(48, 800)
    if n <= 0:
        return
    hs = settings(max_examples=n, stateful_step_count=8, deadline=None, database=None,
                  suppress_health_check=list(HealthCheck), report_multiple_bugs=False, print_blob=False)
    try:
        run_state_machine_as_test(hypothesis.seed(ctx.shard_seed + 77)(ServerHistory), settings=hs)
    except Violation as v:
        ctx.violation(v)
    except Exception as e:
        if LAST:
            ctx.violation(LAST[-1])
        else:
            ctx.error('server history machine: %r' % (e,))
    for seq in STATS:
        pair = any(a % 2 == 0 and (a + 1) in seq[k + 1:] for k, a in enumerate(seq))
        ctx.stats.case(key=('srv', seq), nontrivial=pair, classes=['server-history'] + (['server:producer-before-consumer'] if pair else []),
                       sample={'request_indices': seq}, n=max(1, len(seq)))
