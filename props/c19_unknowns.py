"""C19 - the unknowns list names exactly the undeclared macros/environments used in text.

Catalogue of declared names: parsed from list-of-macros.md (documentation),
per package / class incl. "Loaded packages".  Reference: walk the generated
document in expansion order with the set of names declared so far (package
selection, \\usepackage / \\documentclass in the text, \\newcommand, \\def,
\\newtheorem), record each undeclared name used outside maths, comments,
verbatim and skipped text once, in order of first use.
"""
import os
import re

from hypothesis import strategies as st

from vlib import sut
from vlib.runner import Violation, hyp_run, sut_frame, watchdog

ID = 'C19'
LEVEL = 'exploration'
RULE = ('Hypothesis: a package/class selection drawn from the load table and a nested document mixing (a) always-undeclared names \\zzA..F / zzenvA..C, (b) macros and environments declared by specific '
        'packages or classes (undeclared exactly when their package is not loaded), (c) built-in names, in text, arguments of unknown / pass-through / declared macros, footnotes, headings, item labels, '
        '\\hspace / \\phantom arguments, user macro bodies, and in inline / displayed maths, comments, \\verb, \\LTskip, first argument of \\LTalter, LT-SKIP regions (never listed); '
        'definitions before / after first use; \\usepackage and \\documentclass inside the text. oracle: tex2txt(unkn=True) text == reference list joined by line breaks (ordered-set equality). '
        'non-trivial = an undeclared name occurs both in a hidden/maths context and in text, or a name is defined or its package loaded after its first use; distinct by (source, options)')
RULE += ' Additions: footnotes attached to inline and displayed formulas as text contexts.'
ASSUMPTIONS = [
    'catalogue of declared names = list-of-macros.md; names used in templates were cross-checked against it at start-up',
    'undeclared names are not placed in discarded arguments (keys, file names), in \\text inside maths or in removed environments: the statement makes no claim there',
]
LEVEL_TEXT = ('Generated search; the expected list is computed by a reference walk with a documentation-derived catalogue and compared for exact equality (order, multiplicity, completeness).')
LEVEL_NOTE = 'Trusted: list-of-macros.md parser and the reference walk (about 120 lines). Sampling only.'
TECHNIQUE = 'Hypothesis document + package-selection generator, reference list from a documentation-derived catalogue (ordered-set equality)'


# -------------------------------------------------------------- catalogue

def parse_md():
    path = os.path.join(sut.REPO, 'list-of-macros.md')
    with open(path, encoding='utf-8') as f:
        txt = f.read().replace('\r', '')
    sections = re.split(r'\n## ', txt)[1:]
    cat = {}
    for s in sections:
        title, _, body = s.partition('\n')
        title = title.strip()
        if title == 'LaTeX builtins':
            key = ''
        elif title.startswith('Package '):
            key = title[8:].strip()
        elif title.startswith('Class '):
            key = 'class:' + title[6:].strip()
        else:
            continue
        macros, envs, loads = set(), set(), set()
        parts = re.split(r'\n\*\*(Macros|Environments|Loaded packages|Known limitations)\*\*', body)
        for i in range(1, len(parts), 2):
            kind, content = parts[i], parts[i + 1]
            content = re.sub(r'\([^()]*Major side[^()]*\)', '', content)
            if kind == 'Macros':
                for m in re.findall(r'\\\\([A-Za-z@]+)', content):
                    macros.add('\\' + m)
            elif kind == 'Environments':
                content = re.sub(r'\([^()]*[a-z ]{6,}[^()]*\)', '', content)
                for e in re.findall(r'([A-Za-z]+)((?:\(\\\*\))?)', content):
                    envs.add(e[0])
                    if e[1]:
                        envs.add(e[0] + '*')
            elif kind == 'Loaded packages':
                for m in re.findall(r'\[([a-z-]+)\]', content):
                    loads.add(m)
        cat[key] = (macros, envs, loads)
    return cat


_cat = None


def catalogue():
    global _cat
    if _cat is None:
        _cat = parse_md()
    return _cat


def declared_by(packs, classes):
    cat = catalogue()
    macros = set(cat[''][0])
    envs = set(cat[''][1])
    todo = list(packs)
    seen = set()
    while todo:
        p = todo.pop()
        if p in seen or p not in cat:
            continue
        seen.add(p)
        macros |= cat[p][0]
        envs |= cat[p][1]
        todo += list(cat[p][2])
    for c in classes:
        k = 'class:' + c
        if k in cat:
            macros |= cat[k][0]
            envs |= cat[k][1]
    return macros, envs, seen


ALL_STAR = ['amsmath', 'amsthm', 'babel', 'biblatex', 'circuitikz', 'geometry', 'glossaries', 'glossaries-extra', 'graphicx',
            'hyperref', 'inputenc', 'listings', 'mathtools', 'pgfplots', 'tikz', 'unicode-math', 'xcolor', 'xspace']
# templates: (source with X for a nested flow, name, kind 'm'/'e', declaring package or '' builtin / None never)
PKG_MACROS = [
    ('\\textcolor{red}{X}', '\\textcolor', 'xcolor'), ('\\colorbox{red}{X}', '\\colorbox', 'xcolor'),
    ('\\href{u}{X}', '\\href', 'hyperref'), ('\\url{X}', '\\url', 'hyperref'),
    ('\\includegraphics{f}', '\\includegraphics', 'graphicx'), ('\\eqref{k}', '\\eqref', 'amsmath'),
    ('\\parencite{k}', '\\parencite', 'biblatex'), ('\\xspace', '\\xspace', 'xspace'), ('\\qedhere', '\\qedhere', 'amsthm'),
    ('\\lstset{k}', '\\lstset', 'listings'), ('\\tikzset{a}', '\\tikzset', 'tikz'), ('\\geometry{a}', '\\geometry', 'geometry'),
    ('\\foreignlanguage{german}{X}', '\\foreignlanguage', 'babel'), ('\\KOMAoptions{x}', '\\KOMAoptions', 'class:scrartcl'),
    ('\\ctikzset{a}', '\\ctikzset', 'circuitikz'), ('\\pgfplotsset{a}', '\\pgfplotsset', 'pgfplots'),
    ('\\mathtoolsset{a}', '\\mathtoolsset', 'mathtools'), ('\\notag', '\\notag', 'amsmath'),
    ('\\glsdisp{l}{X}', '\\glsdisp', 'glossaries'), ('\\inputencoding{u}', '\\inputencoding', 'inputenc'),
]
PKG_ENVS = [('proof', 'amsthm'), ('align', 'amsmath'), ('otherlanguage', 'babel'), ('gather*', 'amsmath')]
BUILTIN = ['\\LaTeX', '\\ref{k}', '\\label{k}', '\\ss', '\\cite{k}', '\\index{k}', '\\par', '\\quad']
EXCLUDE_KNOWN = [False]        # set by the generated search, not by replays
ZZ = ['\\zzA', '\\zzB', '\\zzC', '\\zzD', '\\zzE', '\\zzF', '\\zzG']
ZZENV = ['zzenvA', 'zzenvB', 'zzenvC']
LOADABLE = ['xcolor', 'hyperref', 'amsmath', 'tikz', 'circuitikz', 'babel', 'xspace', 'amsthm', 'listings', 'biblatex', 'glossaries-extra', 'mathtools']

zz = st.sampled_from(ZZ)


def item(child):
    return st.one_of(
        st.just(('w',)), st.just(('w',)),
        st.tuples(st.just('zz'), zz, st.sampled_from(['', '{X}', '{X}{Y}']), child),
        st.tuples(st.just('zz'), zz, st.just(''), st.just([])),
        st.tuples(st.just('zzenv'), st.sampled_from(ZZENV), child),
        st.tuples(st.just('pkgmac'), st.sampled_from(PKG_MACROS), child),
        st.tuples(st.just('pkgenv'), st.sampled_from(PKG_ENVS), child),
        st.tuples(st.just('builtin'), st.sampled_from(BUILTIN)),
        st.tuples(st.just('ctx'), st.sampled_from(['foot', 'head', 'ltadd', 'framebox', 'group', 'itemlab', 'hspace', 'phantom', 'alter2', 'mathfoot', 'dmathfoot']), child),
        st.tuples(st.just('hidden'), st.sampled_from(['imath', 'dmath', 'equation', 'comment', 'verb', 'ltskip', 'alter1', 'skipregion', 'comment-after-linebreak', 'comment-glued', 'verbatim', 'skipregion-after-comment', 'skipregion-comment-before-end']),
                  st.one_of(zz, st.sampled_from([t[1] for t in PKG_MACROS]))),
        st.tuples(st.just('define'), zz, st.sampled_from(['newcommand0', 'newcommand1', 'def', 'body'])),
        st.tuples(st.just('usebody'), child),
        st.tuples(st.just('newthm'), st.sampled_from(ZZENV)),
        st.tuples(st.just('load'), st.sampled_from(LOADABLE)),
        st.tuples(st.just('dcls'), st.sampled_from(['scrartcl', 'article'])),
    )


leaf = st.lists(st.just(('w',)), min_size=1, max_size=2)
flow = st.recursive(leaf, lambda c: st.lists(item(c), min_size=1, max_size=4), max_leaves=12)
packsel = st.one_of(st.just(None), st.just(''), st.just('*'),
                    st.lists(st.sampled_from(ALL_STAR + ['cleveref']), min_size=1, max_size=4, unique=True).map(','.join))
doc_s = st.tuples(packsel, st.sampled_from([None, '', 'article', 'scrartcl', 'book']), flow)


class W:
    def __init__(self, packs, classes):
        self.src = []
        self.macros, self.envs, self.loaded = declared_by(packs, classes)
        self.macros = set(self.macros)
        self.envs = set(self.envs)
        self.expected = []
        self.hidden_names = set()
        self.text_names = set()
        self.late = False       # a name defined / loaded after its first use
        self.n = 0
        self.body_defined = False
        self.arity = {}
        self.in_head = 0
        self.excluded = {}

    def emit(self, s):
        if self.src and s and (s[0].isalpha() or s[0] == '@') and re.search(r'\\[a-zA-Z@]+$', self.src[-1]):
            self.src.append('{}')
        self.src.append(s)

    def use_macro(self, name):
        self.text_names.add(name)
        if name not in self.macros and name not in self.expected:
            self.expected.append(name)

    def use_env(self, name):
        self.text_names.add(name)
        if name not in self.envs and name not in self.expected:
            self.expected.append(name)

    def word(self):
        self.n += 1
        self.emit('Wd%d ' % self.n)


def rend(w, fl):
    for it in fl:
        k = it[0]
        if k == 'w':
            w.word()
        elif k == 'zz':
            name, shape, sub = it[1], it[2], it[3]
            w.use_macro(name)
            w.emit(name)
            if shape:
                w.emit('{')
                rend(w, sub)
                w.emit('}')
                if shape == '{X}{Y}':
                    w.emit('{y}')
            elif w.arity.get(name):
                w.emit('{x} ')
            else:
                w.emit(' ')
        elif k == 'zzenv':
            w.use_env(it[1])
            w.emit('\\begin{%s} ' % it[1])
            rend(w, it[2])
            w.emit('\\end{%s} ' % it[1])
        elif k == 'pkgmac':
            templ, name, pkg = it[1]
            w.use_macro(name)
            if name == '\\xspace' and name in w.macros:
                pass
            pre, x, post = templ.partition('X')
            w.emit(pre)
            if x:
                rend(w, it[2])
            w.emit(post + ' ')
        elif k == 'pkgenv':
            name, pkg = it[1]
            w.use_env(name)
            w.emit('\\begin{%s}' % name)
            if name == 'otherlanguage':
                w.emit('{german}')
            w.emit(' ')
            if name in ('align', 'gather*') and name in w.envs:
                w.emit('a = b')     # declared: equation environment, maths inside
            else:
                rend(w, it[2])
            w.emit(' \\end{%s} ' % name)
        elif k == 'builtin':
            w.emit(it[1] + ' ')
        elif k == 'ctx':
            c = it[1]
            pre, post = {'foot': ('\\footnote{', '}'), 'head': ('\\section{', '}'), 'ltadd': ('\\LTadd{', '}'),
                         'framebox': ('\\framebox{', '}'), 'group': ('{', '}'),
                         'itemlab': ('\\begin{itemize}\\item[', '] x \\end{itemize}'),
                         'hspace': ('\\hspace{', '}'), 'phantom': ('\\phantom{', '}'), 'alter2': ('\\LTalter{x}{', '}'),
                         # text of a footnote attached to a formula is text (seeded change C19-G)
                         'mathfoot': ('$x\\footnote{', '}$'), 'dmathfoot': ('\\[ x = y \\footnote{', '} \\]')}[c]
            w.emit(pre)
            sub = it[2]
            if c == 'head':
                w.in_head += 1
            if c in ('itemlab',):
                sub = [s for s in sub if s[0] in ('w', 'zz', 'builtin')]
                sub = [(s[0], s[1], '', []) if s[0] == 'zz' else s for s in sub]
            rend(w, sub)
            if c == 'head':
                w.in_head -= 1
            w.emit(post + ' ')
        elif k == 'hidden':
            c, name = it[1], it[2]
            w.hidden_names.add(name)
            if c == 'imath':
                w.emit('$a %s b$ ' % name)
            elif c == 'dmath':
                w.emit('\\[ a %s b \\] ' % name)
            elif c == 'equation':
                w.emit('\\begin{equation} %s{1} = 2 \\end{equation} ' % name)
            elif c == 'comment':
                w.emit('%% %s{x}\n' % name)
            elif c == 'comment-after-linebreak':
                w.emit('x \\\\%% note %s y\n' % name)
            elif c == 'comment-glued':
                w.emit('x%%%s\n' % name)
            elif c == 'verbatim':
                w.emit('\\begin{verbatim}\n%s\n\\end{verbatim}\n' % name)
            elif c == 'verb':
                w.emit('\\verb|%s| ' % name)
            elif c == 'ltskip':
                w.emit('\\LTskip{%s} ' % name)
            elif c == 'alter1':
                w.emit('\\LTalter{%s}{y} ' % name)
            elif c == 'skipregion-after-comment':
                w.emit('\n%% a note\n%%%%%% LT-SKIP-BEGIN\n%s x\n%%%%%% LT-SKIP-END\n' % name)
            elif c == 'skipregion-comment-before-end':
                w.emit('\n%%%%%% LT-SKIP-BEGIN\n%s x\n%% a note\n%%%%%% LT-SKIP-END\n' % name)
            elif c == 'skipregion':
                w.emit('\n%%%%%% LT-SKIP-BEGIN\n%s x\n%%%%%% LT-SKIP-END\n' % name)
        elif k == 'define' and w.in_head and EXCLUDE_KNOWN[0]:
            # known finding F28 (a definition inside a heading argument is executed twice): excluded from the
            # generated search by construction, counted; the recorded case itself is replayed on every run
            w.excluded['F28: definition inside a heading argument -> word'] = w.excluded.get('F28: definition inside a heading argument -> word', 0) + 1
            w.word()
        elif k == 'define':
            name, how = it[1], it[2]
            if how == 'body':
                if w.body_defined:
                    continue
                w.body_defined = True
                w.emit('\\newcommand{\\zzbodymac}[1]{#1 \\zzG x}\n')
                w.macros.add('\\zzbodymac')
                continue
            if name in w.text_names and name not in w.macros:
                w.late = True
            if how != 'newcommand1' and w.arity.get(name):
                continue
            if how == 'newcommand0':
                w.emit('\\newcommand{%s}{x}\n' % name)
            elif how == 'newcommand1':
                if name in w.macros:
                    continue        # \newcommand twice with different arity: keep the first
                w.emit('\\newcommand{%s}[1]{(#1)}\n' % name)
                w.arity[name] = 1
            else:
                w.emit('\\def%s{x}\n' % name)
            w.macros.add(name)
        elif k == 'usebody':
            if '\\zzbodymac' not in w.macros:
                w.word()
                continue
            w.emit('\\zzbodymac{')
            rend(w, it[1])
            w.emit('}')
            w.use_macro('\\zzG')
            w.emit(' ')
        elif k == 'newthm':
            if it[1] in w.text_names and it[1] not in w.envs:
                w.late = True
            w.emit('\\newtheorem{%s}{Name}\n' % it[1])
            w.envs.add(it[1])
        elif k == 'load':
            p = it[1]
            m2, e2, seen = declared_by([p], [])
            new = (m2 | {x for x in ()}) - w.macros
            if any(n in w.text_names for n in (m2 - w.macros)) or any(n in w.text_names for n in (e2 - w.envs)):
                w.late = True
            w.emit('\\usepackage{%s}\n' % p)
            w.macros |= m2
            w.envs |= e2
        elif k == 'dcls':
            m2, e2, seen = declared_by([], [it[1]])
            w.emit('\\documentclass{%s}\n' % it[1])
            w.macros |= m2
            w.envs |= e2


def selection(pack, dcls):
    if pack == '*':
        packs = list(ALL_STAR)
    elif pack:
        packs = pack.split(',')
    else:
        packs = []
    return packs, ([dcls] if dcls else [])


def check(doc):
    pack, dcls, fl = doc
    packs, classes = selection(pack, dcls)
    w = W(packs, classes)
    rend(w, fl)
    src = ''.join(w.src) + '\n'
    case = {'doc': doc, 'src': src}
    try:
        with watchdog(20):
            # a replacement list belongs to the text, never to the list of names
            repl = [None, ['zzA & changed\n', 'zzenvA & changed\n'], ['textcolor & x y\n', 'zzB zzC & merged\n']][len(src) % 3]
            (plain, pos), err = sut.tex2txt(src, pack=pack, dcls=dcls, unkn=True, lang='en', repl=repl)
    except Exception as e:
        raise Violation('exception:' + sut_frame(e), case, repr(e))
    want = '\n'.join(w.expected) + '\n'
    if plain != want:
        got = plain.split('\n')[:-1]
        det = {'expected': w.expected, 'actual': got, 'pack': pack, 'dcls': dcls,
               'missing': [x for x in w.expected if x not in got], 'unexpected': [x for x in got if x not in w.expected]}
        kind = 'unknowns-list-differs'
        if det['unexpected'] and not det['missing']:
            kind = 'name-listed-that-should-not-be'
        elif det['missing'] and not det['unexpected']:
            kind = 'undeclared-name-missing'
        elif sorted(got) == sorted(w.expected):
            kind = 'unknowns-order'
        raise Violation(kind, case, det)
    if len(plain) != len(pos):
        raise Violation('length', case, None)
    nt = bool(w.hidden_names & set(w.expected)) or w.late
    return w, src, nt


def shell_route(doc, src, expected):
    d = os.path.join(sut.scratch_dir(), 'c19s')
    os.makedirs(d, exist_ok=True)
    with open(os.path.join(d, 't.tex'), 'w', encoding='utf-8') as f:
        f.write(src)
    extra = [[], ['--multi-language'], ['--simple-equations'], ['--multi-language', '--ml-continue-threshold', '1'], ['--output', 'json'],
             ['--single-letters', 'a|I']][len(src) % 6]
    args = ['--list-unknown', '--language', 'en', '--packages', doc[0] or '', '--documentclass', doc[1] or ''] + extra + ['t.tex']
    with watchdog(120):
        rc, out, err = sut.run_shell(args, d, plan={'mode': 'flag_words', 'words': []})
    out = out.decode('utf-8')
    want = ('=== t.tex ===\n' + '\n'.join(expected) + '\n') if expected else ''
    if rc != 0 or out != want:
        raise Violation('shell-list-unknown-differs', {'doc': doc, 'src': src, 'shell': True},
                        {'status': rc, 'stdout': out, 'expected': want, 'stderr': err.decode('utf-8', 'replace')[-400:]})



def selfcheck():
    """templates must agree with the documentation"""
    cat = catalogue()
    bad = []
    for templ, name, pkg in PKG_MACROS:
        if pkg not in cat or name not in cat[pkg][0]:
            bad.append((name, pkg))
    for name, pkg in PKG_ENVS:
        if pkg not in cat or name not in cat[pkg][1]:
            bad.append((name, pkg))
    for b in BUILTIN:
        n = re.match(r'\\[A-Za-z]+', b).group(0)
        if n not in cat[''][0]:
            bad.append((n, 'builtin'))
    return bad


def replay(case):
    from vlib.docprop import untuple
    try:
        w, src, nt = check(untuple(case['doc']))
        if case.get('shell'):
            shell_route(untuple(case['doc']), src, w.expected)
    except Violation as v:
        return v
    return None


def run_shard(ctx):
    bad = selfcheck()
    if bad:
        ctx.error('templates disagree with list-of-macros.md: %r' % bad)
        return

    count = [0]

    EXCLUDE_KNOWN[0] = True

    def one(doc):
        w, src, nt = check(doc)
        for k, n in w.excluded.items():
            ctx.stats.excluded[k] += n
        count[0] += 1
        if count[0] % (40 if ctx.tier == 'quick' else 10) == 0:
            shell_route(doc, src, w.expected)
            ctx.stats.case(key=('shell', src, doc[0], doc[1]), nontrivial=nt, classes=['shell --list-unknown'])
        cl = ['pack:' + ('none' if not doc[0] else ('*' if doc[0] == '*' else 'selection'))]
        if w.expected:
            cl.append('non-empty-list')
        if w.late:
            cl.append('declared-after-first-use')
        if w.hidden_names & set(w.expected):
            cl.append('same-name-hidden-and-in-text')
        ctx.stats.case(key=(src, doc[0], doc[1]), nontrivial=nt, classes=cl,
                       sample={'src': src, 'pack': doc[0], 'dcls': doc[1], 'expected': w.expected})
    hyp_run(ctx, doc_s, one, ctx.n(30000, 300000))
