"""C05 - text flow is preserved (annotated document generator with layout alphabet)."""
from vlib import docprop

ID = 'C05'
LEVEL = 'exploration'
RULE = docprop.RULE_PREFIX + ('oracle on every pair of consecutive copied words of a flow with no generated text between them: class P (blank line, \\par or paragraph-forming environment between them) '
        '-> the output between them contains a blank line; class S (a counting blank between them) -> non-empty pure white space without blank line; class G (no counting blank) -> no blank line; a pair in which one side is the text of a simple generating macro (\\LaTeX, \\ref, \\gls ..) with a counting blank between: at least one blank in the output. '
        'non-trivial = a pair whose source separation contains a vanishing construct, comment or delimiter on a line of its own or next to a paragraph break '
        '(approximated: the document has a line-break separator AND a vanishing/pass-through/comment construct); distinct by source text')
RULE += ' Additions: a paragraph break is also claimed across a skip region; comment followed by a blank-but-not-empty line.'
ASSUMPTIONS = docprop.ASSUMPTIONS
LEVEL_TEXT = ('Generated search over layouts; the separator class of every adjacent word pair is derived from the rendered source and compared with the white space found in the output.')
LEVEL_NOTE = 'Trusted: the renderer/annotation code (docgen.py) and its classification of separators. Sampling only.'
TECHNIQUE = 'Hypothesis document + layout generator, adjacency-class oracle (paragraph / space / no-invented-break)'


def judge(m, v, case):
    if v.c05:
        return 'text-flow', v.c05[:5]
    return None


def nontrivial(m, v):
    return v.aligned and 'newline-sep' in m.features and bool(m.features & {'vanish', 'pass', 'comment', 'unknown-env', 'removed-env', 'skip-region'})


def classes(m, v):
    c = sorted(m.features & {'own-line-brace', 'comment', 'par-env', 'par-macro', 'removed-env', 'skip-region', 'float-env', 'unknown-env', 'verbatim', 'language-env'})
    for k in ('pairs_P', 'pairs_S', 'pairs_G', 'pairs_Sw'):
        if v.counts.get(k):
            c.append(k)
    return c


run_shard, replay = docprop.make(ID, judge, nontrivial, classes, quick=40000, thorough=333333)
