"""C08 - LaTeX problems yield the full error mark at the right place, and only then.

Negative half: every well-formed generated document produces neither a
diagnostic nor a mark.  Positive half: one construct-level fault is injected
at a place known to the renderer; the diagnostic must name exactly that line
and column, the complete mark must be in the text with its first character
mapped to that offset, and every word behind the faulty construct (for open
maths: behind the end of its paragraph) must still be there, in order, with
exact positions.
"""
import re

from hypothesis import strategies as st

from vlib import docgen, docprop, refcheck, sut
from vlib.runner import Violation, hyp_run, sut_frame, watchdog

ID = 'C08'
LEVEL = 'fault_enumeration'
RULE = ('negative half: the well-formed documents of the annotated generator (see C03) - stderr must be empty and the mark absent; '
        'positive half: Hypothesis draws (prefix document, fault kind, fault text, rest document) with fault kinds {open inline maths $ \\(, open displayed maths \\[ $$ equation/align, '
        'mandatory or optional argument of a declared macro open at end of text (also inside inline / displayed maths), displayed-maths faults also with the simple-equations option, \\verb without closing delimiter, verbatim without end, LT-SKIP-BEGIN without END, accent on a non-letter, '
        '\\LTinput of a missing or undecodable file}; optionally an \\LTinput of an empty / comment-only file in front, also with the fault within the last 14 characters of the text; oracle: exact line/column in the diagnostic, complete mark, mark mapped to the fault offset, '
        'all later words present in order with exact positions, mark iff diagnostic. '
        'non-trivial = positive case whose fault is not at offset 0 and that has at least one word behind the faulty construct; distinct by source text')
RULE += ' Additions: an open mandatory / optional argument for every macro and environment of the catalogue (all packages loaded).'
ASSUMPTIONS = docprop.ASSUMPTIONS + [
    'faults are placed at the top level of the main flow; open maths faults are the last maths delimiter of their paragraph (otherwise a later $ closes them and LaTeX itself sees a different error)',
    'the rest behind an open [ contains no ] ; the rest behind an open verbatim / skip region contains no further verbatim / skip region (they would close the fault)',
    'diagnostics inside --defs / \\LTinput files refer to those files and are outside the claim',
]
LEVEL_TEXT = ('Fault enumeration by construction: each fault kind the statement lists is injected at generated places (including the last 14 characters, where the mark is split) '
              'and the diagnostic position, mark completeness, mark position and preservation of later text are checked exactly; well-formed documents must stay silent.')
LEVEL_NOTE = 'Trusted: renderer annotations (fault offset, later words). Fault kinds are those of the statement; other diagnostics (e.g. \\def syntax) are not covered.'
TECHNIQUE = 'Hypothesis document generator + construct-level fault injection with exactly known fault position'

MARK = 'LATEXXXERROR'
plainwords = st.lists(st.just(('word',)), min_size=0, max_size=3)
OPEN_ARG = ['\\textcolor{KEY}{', '\\footnote{', '\\section{', '\\href{KEY}{', '\\zzone{', '\\textcolor{', '\\colorbox{KEY}{',
            '\\caption{', '\\LTadd{', '\\zzpair{KEY}{', '\\subsection*{', '\\foreignlanguage{german}{', '\\texorpdfstring{']
OPEN_OPT = ['\\cite[', '\\caption[', '\\footnote[', '\\section[', '\\zzopt[', '\\includegraphics[', '\\begin{figure}[', '\\framebox[']


def catalogue_heads():
    """every declared macro / environment with its k-th argument left open: (heads with an open mandatory
    argument, heads with an open optional argument); earlier mandatory arguments are given as {KEY}"""
    from vlib import soup
    macros, envs = soup.catalogue()
    oa, oo = [], []
    for name, args in list(macros.items()) + [('\\begin{%s}' % k, v) for k, v in envs.items()]:
        if name.startswith(('\\KOMAoption', '\\begin{alignat')):
            continue        # class not loaded in these runs; argument followed by maths
        for i, c in enumerate(args):
            pre = name + ''.join('{KEY}' if x == 'A' else '' for x in args[:i])
            if c == 'A':
                oa.append(pre + '{')
            elif c == 'O':
                oo.append(pre + '[')
    return oa, oo


CAT_ARG, CAT_OPT = catalogue_heads()
fault = st.one_of(
    st.tuples(st.just('argc'), st.sampled_from(CAT_ARG)),
    st.tuples(st.just('optc'), st.sampled_from(CAT_OPT), plainwords),
    st.tuples(st.just('imath'), st.sampled_from(['$', '\\(']), st.sampled_from(['x', 'a+b', 'x_1^2 = \\alpha', '\\frac{a}{b}', '']), plainwords),
    st.tuples(st.just('dmath'), st.sampled_from(['\\[', '$$', '\\begin{equation}', '\\begin{align}', '\\begin{eqnarray*}']),
              st.sampled_from(['x', 'a &= b \\\\ c &= d', 'x.', '']), plainwords),
    st.tuples(st.just('arg'), st.sampled_from(OPEN_ARG)),
    st.tuples(st.just('arg-in-maths'), st.sampled_from(['$', '\\[', '\\begin{align}']), st.sampled_from(['\\textcolor{KEY}{', '\\zzone{', '\\colorbox{KEY}{', '\\zzpair{x}{']),
              st.sampled_from(['x', 'a + b', 'x \\] y', 'x$ y', 'a &= b'])),
    st.tuples(st.just('opt'), st.sampled_from(OPEN_OPT), plainwords),
    st.tuples(st.just('verb'), st.sampled_from('|+!'), st.text(alphabet='ab {}%$', max_size=5)),
    st.tuples(st.just('verbatim'), st.sampled_from(['', ' ', '\n'])),
    st.tuples(st.just('skip'),),
    st.tuples(st.just('accent'), st.sampled_from(["\\'1", '\\"{2x}', '\\v{.}', '\\c 3', "\\`ж", '\\^{9}', '\\~?', '\\H{(}'])),
    st.tuples(st.just('ltinput'), st.sampled_from(['missing', 'missing', 'undecodable'])),
)
small_flow = st.recursive(docgen.leaf_flow, docgen.mkflow, max_leaves=6)
case_s = st.tuples(st.one_of(st.just([]), small_flow, st.just('LTINPUT-EMPTY'), st.just('LTINPUT-COMMENT'), st.just('LTINPUT-NESTED'), st.just('LTINPUT-PACK')), docgen.sep_any, fault,
                   st.one_of(st.just([]), st.just([]), docgen.leaf_flow, small_flow),
                   st.sampled_from(['', '', ' ', '\n', '\n\n']))


def linecol(src, off):
    lin = src.count('\n', 0, off) + 1
    col = off - (src.rfind('\n', 0, off) + 1) + 1
    return lin, col


def build(case, flags):
    prefix, sep, flt, rest, tail = case
    kind = flt[0]
    fl = dict(flags)
    if kind == 'verbatim':
        fl['no_verbatim'] = True
    if kind == 'skip':
        fl['no_skip'] = True
    m = docgen.Model(fl)
    m.emit(docgen.PREAMBLE)
    if prefix in ('LTINPUT-EMPTY', 'LTINPUT-COMMENT', 'LTINPUT-NESTED', 'LTINPUT-PACK'):
        # NESTED / PACK: the file read first reads a further file / loads packages that define macros by LaTeX text (two levels; round-5 seed C08-I)
        # a readable file without any definition is read first (two-step situation)
        m.emit('\\LTinput{zz-%s.tex}\n' % prefix[8:].lower())
        w = m.word()
        m.main.append(('w', w, m.n, 'word'))
        m.emit(w + '\n')
    elif prefix:
        docgen.render_flow(m, prefix, first_sep=False)
        docgen.emit_sep(m, sep)
    info = {'kind': kind}
    para_needed = False
    if kind == 'dmath':
        info['seqs'] = (len(m.source()) + len(flt[2])) % 3 == 0
    if kind in ('imath', 'dmath'):
        info['off'] = m.emit(flt[1])
        m.emit(' ' + flt[2] if flt[2] else '')
        for w in flt[3]:
            m.emit(' ' + m.word())
        para_needed = True
    elif kind == 'arg-in-maths':
        m.emit(flt[1] + ' a + ')
        docgen.fill(m, flt[2][:-1])
        info['off'] = m.emit('{')
        m.emit(flt[3])
        rest = []
        info['seqs'] = len(m.source()) % 3 == 0
    elif kind in ('arg', 'argc'):
        parts = flt[1]
        docgen.fill(m, parts[:-1])
        info['off'] = m.emit(parts[-1])
        if kind == 'argc':
            rest = [(s, it) for s, it in rest if it == ('word',)]
    elif kind in ('opt', 'optc'):
        docgen.fill(m, flt[1][:-1])
        info['off'] = m.emit('[')
        for w in flt[2]:
            m.emit(m.word() + ' ')
        rest = [(s, it) for s, it in rest if it == ('word',)]
    elif kind == 'verb':
        info['off'] = m.emit('\\verb')
        m.emit(flt[1] + flt[2].replace(flt[1], 'a'))
        if rest:
            m.emit('\n')
    elif kind == 'verbatim':
        info['off'] = m.emit('\\begin{verbatim}')
        m.emit(flt[1])
    elif kind == 'skip':
        info['off'] = m.emit('%%% LT-SKIP-BEGIN')
        m.emit('\n')
    elif kind == 'accent':
        info['off'] = m.emit(flt[1])
        m.emit(' ')
    elif kind == 'ltinput':
        info['off'] = m.emit('\\LTinput{')
        if len(flt) > 1 and flt[1] == 'undecodable':
            m.emit('zz-latin1.tex}')
        else:
            m.emit('zz-no-such-file-' + m.word() + '.tex}')
    info['span_end'] = m.n
    mark0 = len(m.main)
    done0 = len(m.done)
    if rest:
        if para_needed:
            m.emit('\n\n')
        docgen.render_flow(m, rest, first_sep=(kind not in ('imath', 'dmath', 'verb', 'skip', 'opt', 'optc')))
    if kind not in ('opt', 'optc'):
        m.emit(tail)
    later_main = [a for a in m.main[mark0:] if a[0] == 'w' and a[3] == 'word']
    later_det = [a for f, _, _ in m.done[done0:] for a in f if a[0] == 'w' and a[3] == 'word']
    info['later_main'] = later_main
    info['later_detached'] = later_det
    return m, info


def check(case, flags, stats=None):
    m, info = build(case, flags)
    src = m.source()
    off = info['off']
    rc = {'src': src, 'case': None}
    try:
        plain, pos, err = docprop.run_source(src, seqs=bool(info.get('seqs')))
    except Exception as e:
        raise Violation('exception:' + sut_frame(e), rc, repr(e))
    det = {'plain': plain, 'stderr': err, 'fault_kind': info['kind'], 'fault_offset_1based': off + 1, 'simple_equations': bool(info.get('seqs'))}
    diags = [l for l in err.splitlines() if l.startswith('*** LaTeX error:')]
    # the problem position: exactly the opening delimiter, except for displayed maths with several
    # rows / sections, where any position inside the open equation is accepted (the statement only
    # requires diagnostic and mark to agree and to point at the problem)
    multi = info['kind'] in ('dmath',) and ('&' in src[off:info['span_end']] or '\\\\' in src[off:info['span_end']])
    cand = [off] if not multi else list(range(off, info['span_end'] + 1))
    found = None
    for o in cand:
        if '*** LaTeX error: line %d, column %d:' % linecol(src, o) in diags:
            found = o
            break
    if found is None:
        det['expected_diagnostic'] = '*** LaTeX error: line %d, column %d:' % linecol(src, off)
        raise Violation('diagnostic-missing-or-misplaced', rc, det)
    if MARK not in plain:
        raise Violation('mark-missing-or-incomplete', rc, det)
    hits = [mt.start() for mt in re.finditer(MARK, plain)]
    if not any(pos[h] == found + 1 for h in hits):
        det['mark_positions'] = [pos[h] for h in hits]
        det['diagnostic_offset_1based'] = found + 1
        raise Violation('mark-not-at-fault-position', rc, det)
    last = -1
    for a in info['later_main'] + info['later_detached']:
        idx = [mt.start() for mt in re.finditer(re.escape(a[1]), plain)]
        if not idx:
            det['lost_word'] = a[1]
            raise Violation('text-behind-fault-lost', rc, det)
        want = list(range(a[2] + 1, a[2] + 1 + len(a[1])))
        if not any(pos[i:i + len(a[1])] == want for i in idx):
            # (further occurrences may be generated text: a stored macro recalled later)
            det['word'] = a[1]
            det['positions'] = [pos[i:i + len(a[1])] for i in idx]
            det['expected_first'] = a[2] + 1
            raise Violation('text-behind-fault-misplaced', rc, det)
    seen = set()
    order = []
    for a in info['later_main']:
        if a[1] not in seen:        # duplicating macros repeat words
            seen.add(a[1])
            order.append(plain.find(a[1]))
    if order != sorted(order):
        det['order'] = order
        raise Violation('text-behind-fault-reordered', rc, det)
    nt = off > len(docgen.PREAMBLE) and bool(info['later_main'] or info['later_detached'])
    near_end = len(src) - off < 14
    return m, info, nt, near_end


def judge_negative(m, v, case):
    if v.stderr:
        return 'diagnostic-on-well-formed-document', v.stderr
    if v.mark:
        return 'mark-on-well-formed-document', None
    return None


FLAGS = docprop.FLAGS
neg_run, neg_replay = docprop.make(ID, judge_negative, lambda m, v: False,
                                   lambda m, v: ['well-formed (negative half)'], quick=12000, thorough=100000)


def replay(case):
    if case.get('wellformed'):
        plain, pos, err = docprop.run_source(case['src'])
        if err or MARK in plain:
            return Violation('diagnostic-on-well-formed-document', case, {'plain': plain, 'stderr': err})
        return None
    if 'fault_case' in case:
        try:
            check(docprop.untuple(case['fault_case']), FLAGS)
        except Violation as v:
            return v
        return None
    return neg_replay(case)


WELLFORMED = ['na\\"{\\i}ve', "R\\'{\\i}o", '\\^\\i le', '\\v{\\j}', '\\"{\\i}', "\\'\\j", '\\c{}', "\\'{}", '\\H{\\zzunknown}', '\\~{ }']


def run_shard(ctx):
    neg_run(ctx)
    # accent macros applied to dotless i / j and to arguments that expand to nothing are well-formed LaTeX:
    # neither diagnostic nor mark (the rendered character is not claimed)
    if ctx.shard == 0:
        for k, a in enumerate(WELLFORMED):
            for pre, post in (('Waabq ', ' Waacq\n'), ('', ''), ('\\section{', '}\n'), ('\\footnote{x ', '} y')):
                src = pre + a + post
                plain, pos, err = docprop.run_source(src)
                if err or MARK in plain:
                    ctx.violation(Violation('diagnostic-on-well-formed-document', {'src': src, 'wellformed': True}, {'plain': plain, 'stderr': err}))
                ctx.stats.case(key=('wf', src), classes=['well-formed accent forms'])

    def positive(case):
        try:
            m, info, nt, near_end = check(case, FLAGS)
        except Violation as v:
            v.case['fault_case'] = case
            raise
        for k, n in m.excluded.items():
            ctx.stats.excluded[k] += n
        ctx.stats.case(key=m.source(), nontrivial=nt,
                       classes=['fault:' + info['kind']] + (['fault-within-14-chars-of-end'] if near_end else []),
                       sample={'src': m.source()[len(docgen.PREAMBLE):], 'fault': info['kind'], 'fault_offset': info['off'] + 1})
    hyp_run(ctx, case_s, positive, ctx.n(30000, 200000), seed=ctx.shard_seed + 500)
