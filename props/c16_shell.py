"""C16, end-to-end sample: `python -m yalafi.shell --output html` with prepared matches."""
import os
import random

from props import c16_html as c
from vlib import sut
from vlib.runner import Violation, watchdog

PIECES = ['Wort', 'a', '<b>', '&amp;', '"q"', 'x > y', '\n', '\n', ' ', ' ', '\\textbf{T}', '$x$', 'é', '\t', '% c\n', "it's", '\x0c', '\u2028', '\\%', '\\&']


def gen(rnd):
    # (a file without final line break gets one from the shell)
    src = ''.join(rnd.choice(PIECES) for _ in range(rnd.randint(3, 25))) + rnd.choice(['\n', '\n', ''])
    nm = rnd.randint(0, 4)
    ms = [(rnd.randint(0, 10 ** 6), rnd.randint(0, 8), ''.join(rnd.choice(c.HOSTILE) for _ in range(3)),
           [rnd.choice(c.HOSTILE)], rnd.choice(c.HOSTILE), 0, 3, rnd.choice(['R', 'R<1>', 'A&B']), False) for _ in range(nm)]
    return {'shell': True, 'src': src, 'matches': ms, 'context': rnd.choice([-1, 0, 2]), 'plain_input': rnd.random() < 0.4}


def check(case):
    d = os.path.join(sut.scratch_dir(), 'c16s')
    os.makedirs(d, exist_ok=True)
    src = case['src']
    with open(os.path.join(d, 't.tex'), 'w', encoding='utf-8', newline='') as f:
        f.write(src)
    tup = (src, [tuple(m) for m in case['matches']], case['context'], not case['plain_input'])
    tex, plain, charmap, matches = c.build(tup)
    if not plain:
        return None
    # the fake proofreader answers with offsets relative to the text it receives = plain
    args = ['--output', 'html', '--context', str(case['context']), '--language', 'en']
    if case['plain_input']:
        args.append('--plain-input')
    import copy
    with watchdog(120):
        rc, out, err = sut.run_shell(args + ['t.tex'], d, plan={'mode': 'matches', 'matches': copy.deepcopy(matches)})
    det = {'status': rc, 'stderr': err.decode('utf-8', 'replace')[-500:]}
    if rc != 0:
        raise Violation('shell-failed', case, det)
    html = out.decode('utf-8')
    c.verify(html, tex, charmap, matches, case['context'], case)
    return len(matches) >= 2


def run(ctx):
    rnd = random.Random(ctx.shard_seed + 11)
    for _ in range(ctx.n(160, 3200)):
        case = gen(rnd)
        try:
            nt = check(case)
        except Violation as v:
            ctx.violation(v)
            return
        if nt is None:
            continue
        ctx.stats.case(key=('shell', case['src'], str(case['matches'])), nontrivial=bool(nt), classes=['shell-run'],
                       sample={'source': case['src'], 'context': case['context'], 'plain_input': case['plain_input'], 'matches': len(case['matches'])})
