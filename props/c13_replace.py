"""C13 - phrase replacement keeps text and position map consistent.

Oracle: differential against a small reference matcher written from the
statement (leftmost, non-overlapping, word boundary iff the phrase begins /
ends with a letter, inter-word white space with at most one line break) with
the statement's position rule; rules applied in sequence.  Second part:
the same rules through tex2txt(..., repl=...) on generated documents, single-
and multi-language (only main-language parts may change).
"""
from hypothesis import strategies as st

from vlib import sut
from vlib.runner import Violation, hyp_run, sut_frame, watchdog

ID = 'C13'
LEVEL = 'exploration'
RULE = ('Hypothesis: texts as separator/word sequences (words incl. regex metacharacters, non-ASCII letters, digits, _), arbitrary non-monotonic integer maps, '
        '1-4 rules (0-3 left words, 0-3 right words, comments, varying blanks); result of utils.replace_phrases compared for equality with a reference matcher; '
        'plus the same rules through tex2txt(repl=..) on generated prose, single and multi-language. '
        'non-trivial = at least one rule matches AND some matching rule has a replacement whose length differs from the matched phrase; distinct by (text, map, rules)')
RULE += ' Additions: integration runs with the main language given or left at its default, rules passed as list or read from a file by read_replacements() (last line with / without line end).'
ASSUMPTIONS = [
    'a rule line without & is generated as the last rule of a sixth of the lists; the documentation does not define it, so both readings are accepted: the whole line is a phrase with an empty replacement (what the code does; boundary and position rules as stated) or the line is ignored',
    'position lists are lists of integers as tex2txt produces them',
    'reference matcher (30 lines) written from the statement; word character = alphanumeric or underscore (Python re semantics of \\b)',
]
LEVEL_TEXT = ('Generated search (Hypothesis, thousands of cases per shard) with a differential oracle: every output text and map must equal that of an independent '
              'reference implementation of the stated matching and position rule; integration cases check that the filter applies the same function to its output.')
LEVEL_NOTE = 'Trusted: the reference matcher. Sampling only; no exhaustiveness claimed.'
TECHNIQUE = 'Hypothesis generated texts/maps/rule lists, differential against a reference matcher; metamorphic integration through tex2txt'

W = ['a', 'b', 'ab', 'so', 'dass', 'x.', '.', 'a.b', '(', '$', '*', 'a+', '1', '_', 'é',
     '[a]', '\\', '&', '#', 'a1', 'A', 'ä', '^a', 'b|a', 'a?', 'so.', '1a', '_a', 'a_', 'R&D', 'AT&T', '&c', 'a&']
SEP = [' ', '  ', '\n', ' \n ', '\n\n', '\t', ' \n\n ', '', '\n \n', ' \t\n', '\xa0']
text_s = st.lists(st.tuples(st.sampled_from(SEP), st.sampled_from(W)), max_size=12) \
    .map(lambda l: ''.join(s + w for s, w in l))
lhs_w = st.sampled_from([w for w in W if w not in ('&', '#')])
rule_s = st.tuples(st.lists(lhs_w, min_size=0, max_size=3),
                   st.lists(st.sampled_from(['a', 'Q', 'so', 'RR', 'b', '&', 'dass', '.', 'é', '\\', '\\n', '\\1', '\\g<0>', 'x\\', '$0']), max_size=3),
                   st.sampled_from(['', ' # comment a & b', '  ', '# a & b']),
                   st.sampled_from([' ', '  ', '\t']))


def mkline(r):
    l, rr, c, sp = r
    if rr is None:                  # line without '&': de facto the whole line is the phrase, with an empty replacement
        return sp.join(l) + c + '\n'
    return sp.join(l + ['&'] + rr) + c + '\n'


def isw(c):
    return c.isalnum() or c == '_'


def match_at(txt, i, lhs):
    first = lhs[0]
    last = lhs[-1]
    if first[0].isalpha() and i > 0 and isw(txt[i - 1]):
        return None
    j = i
    for k, w in enumerate(lhs):
        if k:
            s = j
            while j < len(txt) and txt[j] in ' \t\n':
                j += 1
            ws = txt[s:j]
            if not ws or ws.count('\n') > 1:
                return None
        if not txt.startswith(w, j):
            return None
        j += len(w)
    if last[-1].isalpha() and j < len(txt) and isw(txt[j]):
        return None
    return j


def ref_one(txt, pos, lhs, rhs, stat=None):
    if not lhs:
        return txt, pos
    repl = ' '.join(rhs or [])
    out_t = []
    out_p = []
    i = 0
    n = len(txt)
    while i < n:
        j = match_at(txt, i, lhs)
        if j is None or j == i:
            out_t.append(txt[i])
            out_p.append(pos[i])
            i += 1
            continue
        ph = pos[i:j]
        out_t.append(repl)
        out_p += [ph[min(k, len(ph) - 1)] for k in range(len(repl))]
        if stat is not None:
            stat['match'] += 1
            if len(repl) != j - i:
                stat['lendiff'] += 1
            if len(repl) > j - i:
                stat['longer'] += 1
            if '\n' in txt[i:j]:
                stat['across-newline'] += 1
        i = j
    return ''.join(out_t), out_p


def ref_all(txt, pos, rules, stat=None, skip_noamp=False):
    for l, rr, c, sp in rules:
        if rr is None and skip_noamp:
            continue
        txt, pos = ref_one(txt, pos, l, rr, stat)
    return txt, pos


def check_direct(txt, pos, rules, stat=None):
    lines = [mkline(r) for r in rules]
    case = {'mode': 'direct', 'text': txt, 'pos': list(pos), 'rules': [[list(r[0]), None if r[1] is None else list(r[1])] + list(r[2:]) for r in rules]}
    try:
        with watchdog(20):
            t, p = sut.yutils.replace_phrases(txt, list(pos), lines)
    except Exception as e:
        raise Violation('exception:' + sut_frame(e), case, repr(e))
    if len(t) != len(p):
        raise Violation('length-mismatch', case, {'text': t, 'map': p})
    et, ep = ref_all(txt, list(pos), rules, stat)
    if any(r[1] is None for r in rules) and (t, list(p)) != (et, ep):
        # a line without '&' is not defined by the documentation: deleting the phrase (what the code does) and
        # ignoring the line are both accepted; the boundary and position rules apply to either reading
        et2, ep2 = ref_all(txt, list(pos), rules, None, skip_noamp=True)
        if (t, list(p)) == (et2, ep2):
            return
    if t != et:
        raise Violation('text-differs', case, {'lines': lines, 'expected': et, 'actual': t})
    if list(p) != ep:
        raise Violation('map-differs', case, {'lines': lines, 'text': t, 'expected': ep, 'actual': list(p)})


# ------------------------------------------------------------- integration

DOCW = ['so', 'dass', 'a', 'b', 'ab', 'Haus', 'x.', 'é', 'ä']
doc_item = st.one_of(
    st.sampled_from(DOCW), st.sampled_from(DOCW),
    st.sampled_from(['\\label{k}', '\\zz{so}', '$x$', '\\footnote{so dass}', '\\textbf{a b}', '%so\n', '\\LaTeX{}']),
    st.tuples(st.just('fl'), st.lists(st.sampled_from(DOCW), min_size=1, max_size=5)),
)
doc_s = st.lists(st.tuples(st.sampled_from([' ', '\n', '  ', '\n\n', ' \n']), doc_item), min_size=1, max_size=12)
rule_doc = st.tuples(st.lists(st.sampled_from(['so', 'dass', 'a', 'b', 'ab', 'Haus', 'x.', 'é', 'B-B-B', '0']), min_size=1, max_size=3),
                     st.lists(st.sampled_from(['Q', 'sodass', 'a', 'RR', 'é', 'so', 'dass', '\\n', '\\0']), max_size=3),
                     st.just(''), st.just(' '))


def render_doc(d):
    out = []
    for s, it in d:
        out.append(s)
        if isinstance(it, tuple):
            out.append('\\foreignlanguage{german}{' + ' '.join(it[1]) + '}')
        else:
            out.append(it)
    return ''.join(out) + '\n'


def check_integration(src, rules, ml, stat=None):
    lines = [mkline(r) for r in rules]
    case = {'mode': 'tex2txt', 'src': src, 'rules': [list(map(list, r[:2])) + list(r[2:]) for r in rules], 'ml': ml}
    # option mixes derived from the case: main language given or left at its default; the rules passed as a
    # list or read from a file by read_replacements(), whose last line may lack the line end (seeded changes C13-G/H)
    h = len(src) + 3 * len(lines) + sum(len(x) for x in lines)
    main = 'en-GB' if h % 3 else ''
    kw = dict(lang=main or None, pack='*')
    case['lang'] = main or None
    try:
        with watchdog(20):
            rl = lines
            if h % 2:
                import os
                fn = os.path.join(sut.scratch_dir(), 'zz-repl-%d.txt' % os.getpid())
                with open(fn, 'w', encoding='utf-8', newline='') as f:
                    f.write(''.join(lines)[:-1] if h % 4 == 1 else ''.join(lines))
                rl = sut._t2t.read_replacements(fn, 'utf-8')
                case['rules_from_file'] = 'no final line end' if h % 4 == 1 else 'final line end'
            r0, e0 = sut.tex2txt(src, ml=ml, **kw)
            r1, e1 = sut.tex2txt(src, ml=ml, repl=rl, **kw)
    except Exception as e:
        raise Violation('exception:' + sut_frame(e), case, repr(e))
    if not ml:
        et, ep = ref_all(r0[0], list(r0[1]), rules, stat)
        if (r1[0], list(r1[1])) != (et, ep):
            raise Violation('tex2txt-repl-differs', case, {'without': r0, 'expected': [et, ep], 'actual': r1})
        return
    if sorted(r0) != sorted(r1):
        raise Violation('tex2txt-repl-parts-differ', case, {'without': r0, 'actual': r1})
    for lang in r0:
        if len(r0[lang]) != len(r1[lang]):
            raise Violation('tex2txt-repl-parts-differ', case, {'without': r0, 'actual': r1})
        for p0, p1 in zip(r0[lang], r1[lang]):
            if lang != 'de-DE':        # the main language, under whatever key it is filed
                et, ep = ref_all(p0[0], list(p0[1]), rules, stat)
            else:
                et, ep = p0[0], list(p0[1])
            if (p1[0], list(p1[1])) != (et, ep):
                raise Violation('tex2txt-repl-differs-ml', case, {'lang': lang, 'without': p0, 'expected': [et, ep], 'actual': p1})


def replay(case):
    try:
        if case['mode'] == 'direct':
            check_direct(case['text'], case['pos'], [tuple(r) for r in case['rules']])
        else:
            check_integration(case['src'], [tuple(r) for r in case['rules']], case['ml'])
    except Violation as v:
        return v
    return None


def run_shard(ctx):
    import collections

    @st.composite
    def direct_case(draw):
        words = draw(st.lists(st.tuples(st.sampled_from(SEP), st.sampled_from(W)), max_size=12))
        txt = ''.join(s + w for s, w in words)
        rules = []
        for _ in range(draw(st.integers(1, 4))):
            r = draw(rule_s)
            ws = [w for _, w in words if w not in ('&', '#')]
            if ws and draw(st.integers(0, 3)):
                i = draw(st.integers(0, len(ws) - 1))
                n = draw(st.integers(1, 3))
                r = (ws[i:i + n],) + r[1:]
                if draw(st.integers(0, 5)) == 0:
                    r = (r[0], list(r[0])) + r[2:]      # identity rule: only normalises white space
            rules.append(r)
        if rules[-1][0] and draw(st.integers(0, 5)) == 0:
            rules[-1] = (rules[-1][0], None) + rules[-1][2:]       # at most one line without '&' (the last one)
        pos = draw(st.lists(st.integers(1, 60), min_size=len(txt), max_size=len(txt)))
        return txt, rules, pos

    def direct(args):
        txt, rules, pos = args
        stat = collections.Counter()
        check_direct(txt, pos, rules, stat)
        nt = stat['match'] > 0 and stat['lendiff'] > 0
        cl = ['direct'] + [k for k in ('match', 'longer', 'across-newline') if stat[k]] + (['line-without-&'] if rules[-1][1] is None else [])
        ctx.stats.case(key=(txt, pos, [r[:2] for r in rules]), nontrivial=nt, classes=cl,
                       sample={'text': txt, 'pos': pos, 'lines': [mkline(r) for r in rules]})

    hyp_run(ctx, direct_case(), direct, ctx.n(60000, 500000))

    def integ(args):
        d, rules, ml = args
        src = render_doc(d)
        stat = collections.Counter()
        check_integration(src, rules, ml, stat)
        nt = stat['match'] > 0 and stat['lendiff'] > 0
        ctx.stats.case(key=(src, [r[:2] for r in rules], ml), nontrivial=nt,
                       classes=['tex2txt-ml' if ml else 'tex2txt-single'] + (['match'] if stat['match'] else []),
                       sample={'src': src, 'lines': [mkline(r) for r in rules], 'ml': ml}, n=2)

    hyp_run(ctx, st.tuples(doc_s, st.lists(rule_doc, min_size=1, max_size=3), st.booleans()), integ,
            ctx.n(6000, 50000), seed=ctx.shard_seed + 500)
