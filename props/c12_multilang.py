"""C12 - multi-language mode assigns every word to exactly one part of the right language.

Reference language tracker (stack: \\selectlanguage / babel option replace the
top, \\foreignlanguage / otherlanguage push and pop) gives the language of every
copied word.  Oracles: (i) every word occurs in exactly one part with its exact
position, (ii) the part is labelled with the reference language, (iii) the
parts together hold the same words as the single-language run, in the same
order per part, (iv) a short \\foreignlanguage insertion between two words of
the surrounding language leaves those words in one part, separated by one
member of the language-change collection mapped inside the insertion; a long
insertion or \\selectlanguage puts them into different parts.
"""
import re

from hypothesis import strategies as st

from vlib import sut
from vlib.runner import Violation, hyp_run, sut_frame, watchdog

ID = 'C12'
LEVEL = 'exploration'
RULE = ('Hypothesis: nested flows of unique words, \\foreignlanguage, otherlanguage(*), \\selectlanguage (top level and inside language scopes), footnotes, pass-through macros, '
        'control words (also such with an optional argument that is not given: \\footnotemark, \\printbibliography, a user macro, \\\\) and formulas at argument ends, simple insertions of 1-6 words; main language by option or by babel package option; languages german, french, english, russian and an unknown name; '
        'thresholds 0..5. oracle (i)-(iv) above against a reference language tracker and the single-language run. '
        'non-trivial = at least two languages AND a language command nested in another language scope, an argument or a footnote; distinct by source text')
RULE += ' Additions: the placeholder of a short insertion must belong to the collection of the surrounding language.'
ASSUMPTIONS = [
    '\\selectlanguage is generated at the top level and directly inside language scopes only, never inside ordinary groups, arguments or footnotes (YaLafi, like the statement, has no group-local switches)',
    'claim (iv) is asserted only for insertions made of plain words with plain words of the surrounding language directly before and after; the other branches of the joining heuristic carry only (i)-(iii)',
    'unknown babel language names count as english (documented fall back of the language map)',
]
LEVEL_TEXT = ('Generated search with a reference language tracker; cross-run metamorphic relation to the single-language result; the documented threshold rule asserted on simple insertions.')
LEVEL_NOTE = 'Trusted: the 30-line language tracker in the renderer. Sampling only.'
TECHNIQUE = 'Hypothesis nested-document generator + reference language tracker + metamorphic comparison with the single-language run'

LM = {'german': 'de-DE', 'french': 'fr', 'english': 'en-GB', 'russian': 'ru-RU', 'klingon': 'en-GB', 'ngerman': 'de-DE'}
CHANGE = ['K-K-K', 'L-L-L', 'M-M-M', 'N-N-N', 'К-К-К', 'Л-Л-Л', 'М-М-М', 'Н-Н-Н']
WORD = re.compile(r'W[a-j]{3}q')
F7_FIXED = True
CWS = ['\\LaTeX', '\\LaTeX', '\\footnotemark', '\\printbibliography', '\\zzoa', '\\\\']

sep = st.sampled_from([' ', '\n', '  ', '\n\n', ' ', ' %c\n'])
langs = st.sampled_from(list(LM))


def item(child):
    return st.one_of(
        st.just(('w',)), st.just(('w',)), st.just(('w',)),
        st.tuples(st.just('fl'), langs, child),
        st.tuples(st.just('ol'), langs, st.booleans(), child),
        st.tuples(st.just('foot'), child),
        st.tuples(st.just('pass'), child),
        st.tuples(st.just('sel'), langs),
        st.tuples(st.just('ins'), langs, st.integers(1, 6)),
        st.tuples(st.just('selsplit'), langs),
        st.tuples(st.just('cw'), st.integers(0, len(CWS) - 1)), st.just(('math',)))


leaf = st.lists(st.tuples(sep, st.just(('w',))), min_size=1, max_size=3)
flow = st.recursive(leaf, lambda c: st.lists(st.tuples(sep, item(c)), min_size=1, max_size=4), max_leaves=12)
doc_s = st.tuples(flow, st.integers(0, 5), st.sampled_from([None, None, 'german', 'russian', 'french', 'cls:german:', 'cls:french:shorthands=off', 'cls:russian:math=normal', 'cls:german:french']))


class M:
    def __init__(self, main):
        self.src = ''
        self.words = []         # (word, offset, language)
        self.n = 0
        self.stack = [main]
        self.group = 0          # depth of ordinary groups / arguments / footnotes
        self.scope = 0          # depth of language scopes
        self.excl = {}
        self.claims = []        # ('same'|'diff', left word, right word, lo, hi)
        self.nested = False

    def word(self):
        self.n += 1
        w = 'W' + ''.join('abcdefghij'[int(d)] for d in '%03d' % self.n) + 'q'
        self.words.append((w, len(self.src), self.stack[-1]))
        self.src += w
        return w

    def ex(self, k):
        self.excl[k] = self.excl.get(k, 0) + 1


def rend(m, fl, first=False):
    for i, (s, it) in enumerate(fl):
        if i or not first:
            m.src += s
        k = it[0]
        if k == 'w':
            m.word()
        elif k == 'cw':
            # a macro without argument, or one whose optional argument is not given (it looks ahead for '[')
            m.src += CWS[it[1]] if len(it) > 1 else '\\LaTeX'
        elif k == 'math':
            m.src += '$x$'
        elif k == 'fl':
            lang = LM[it[1]]
            if lang == m.stack[-1] and not F7_FIXED:
                m.ex('F7: same-language \\foreignlanguage -> pass-through')
                rend(m, [(' ', ('pass', it[2]))], True)
                continue
            if m.group or m.scope:
                m.nested = True
            m.src += '\\foreignlanguage{%s}{' % it[1]
            m.stack.append(lang)
            m.scope += 1
            rend(m, it[2], True)
            m.scope -= 1
            m.stack.pop()
            m.src += '}'
        elif k == 'ol':
            lang = LM[it[1]]
            if lang == m.stack[-1] and not F7_FIXED:
                m.ex('F7: same-language otherlanguage -> pass-through')
                rend(m, [(' ', ('pass', it[3]))], True)
                continue
            if m.group or m.scope:
                m.nested = True
            env = 'otherlanguage' + ('*' if it[2] else '')
            m.src += '\\begin{%s}{%s}' % (env, it[1])
            m.stack.append(lang)
            m.scope += 1
            rend(m, it[3])
            m.scope -= 1
            m.stack.pop()
            m.src += ' \\end{%s}' % env
        elif k == 'foot':
            m.src += '\\footnote{'
            m.group += 1
            sc, m.scope = m.scope, 0
            rend(m, it[1], True)
            m.scope = sc
            m.group -= 1
            m.src += '}'
        elif k == 'pass':
            m.src += '\\zzbf{'
            m.group += 1
            rend(m, it[1], True)
            m.group -= 1
            m.src += '}'
        elif k in ('sel', 'selsplit'):
            lang = LM[it[1]]
            if m.group > 0:
                m.ex('\\selectlanguage inside an ordinary group / argument / footnote -> dropped')
                m.word()
                continue
            if k == 'selsplit' and lang != m.stack[-1]:
                a = m.word()
                m.src += ' \\selectlanguage{%s} ' % it[1]
                m.stack[-1] = lang
                b = m.word()
                m.claims.append(('diff', a, b, 0, 0))
            else:
                m.src += '\\selectlanguage{%s}' % it[1]
                m.stack[-1] = lang
            if m.scope:
                m.nested = True
        elif k == 'ins':
            lang = LM[it[1]]
            if lang == m.stack[-1]:
                m.word()
                continue
            a = m.word()
            m.src += ' '
            lo = len(m.src)
            m.src += '\\foreignlanguage{%s}{' % it[1]
            # white space at the start of the inserted text: none, one character or a run (round-6 seed C14-J)
            m.src += ['', ' ', '', '  ', '\n  ', '', '\t \t'][len(m.src) % 7]
            m.stack.append(lang)
            for j in range(it[2]):
                if j:
                    m.src += ' '
                m.word()
            m.stack.pop()
            m.src += '}'
            hi = len(m.src)
            m.src += ' '
            b = m.word()
            if m.scope == 0:
                # (inside another language scope the surrounding section may itself be merged away)
                m.claims.append(('ins', a, b, lo, hi, it[2]))
            if m.group or m.scope:
                m.nested = True


def apply_babel(m, babel):
    """main language by package option, or by class option with babel loaded with other / further options
    (the last language among class options + package options wins)"""
    if not babel:
        return
    if babel.startswith('cls:'):
        _, cl, po = babel.split(':')
        m.src += '\\documentclass[%s]{article}\n\\usepackage%s{babel}\n' % (cl, '[%s]' % po if po else '')
        m.stack[-1] = LM[po] if po in LM else LM[cl]
    else:
        m.src += '\\usepackage[%s]{babel}\n' % babel
        m.stack[-1] = LM[babel]


def check(doc):
    fl, thresh, babel = doc
    m = M('en-GB')
    apply_babel(m, babel)
    m.src += '\\newcommand{\\zzoa}[1][]{}\n'
    rend(m, fl, True)
    src = m.src + '\n'
    case = {'doc': doc, 'src': src}
    try:
        with watchdog(20):
            r, err = sut.tex2txt(src, ml=True, thresh=thresh, pack='*', lang='en-GB')
            single, err2 = sut.tex2txt(src, pack='*', lang='en-GB')
    except Exception as e:
        raise Violation('exception:' + sut_frame(e), case, repr(e))
    if err:
        raise Violation('diagnostic-on-well-formed-document', case, err)
    where = {}
    for w, off, lang in m.words:
        hits = [(l, i) for l in r for i, p in enumerate(r[l]) if w in p[0]]
        det = {'word': w, 'expected_language': lang, 'result': r}
        if len(hits) != 1:
            raise Violation('word-not-in-exactly-one-part', case, dict(det, parts=hits))
        l, i = hits[0]
        p = r[l][i]
        if p[0].count(w) != 1:
            raise Violation('word-duplicated', case, det)
        if l != lang:
            raise Violation('word-in-part-of-wrong-language', case, dict(det, actual_language=l))
        k = p[0].index(w)
        if list(p[1][k:k + len(w)]) != list(range(off + 1, off + 1 + len(w))):
            raise Violation('word-position', case, dict(det, positions=list(p[1][k:k + len(w)]), expected_first=off + 1))
        where[w] = (l, i, k)
    ws = WORD.findall(single[0])
    allw = sorted(w for l in r for p in r[l] for w in WORD.findall(p[0]))
    if sorted(ws) != allw:
        raise Violation('parts-do-not-hold-the-words-of-the-single-language-run', case, {'single': single[0], 'result': r})
    order = {w: i for i, w in enumerate(ws)}
    for l in r:
        for p in r[l]:
            seq = [order[w] for w in WORD.findall(p[0])]
            if seq != sorted(seq):
                raise Violation('word-order-in-part', case, {'part': p[0], 'single': single[0]})
    nclaims = 0
    for c in m.claims:
        a, b = c[1], c[2]
        la, ia, ka = where[a]
        lb, ib, kb = where[b]
        det = {'left': a, 'right': b, 'threshold': thresh, 'result': r}
        if c[0] == 'diff':
            nclaims += 1
            if (la, ia) == (lb, ib):
                raise Violation('selectlanguage-did-not-end-the-part', case, det)
        else:
            nclaims += 1
            k = c[5]
            if k <= thresh:
                if (la, ia) != (lb, ib):
                    raise Violation('short-insertion-broke-the-part', case, dict(det, words=k))
                p = r[la][ia]
                between = p[0][ka + len(a):kb]
                # the placeholder is read as a word of the surrounding part: it comes from the collection
                # that the parser settings give for that language (seeded change C12-H)
                coll = CHANGE[4:] if la == 'ru-RU' else CHANGE[:4]
                if between.strip() not in coll or not between.startswith(' ') or not between.endswith(' '):
                    raise Violation('short-insertion-not-one-placeholder', case, dict(det, between=between))
                i0 = ka + len(a) + between.index(between.strip())
                pp = p[1][i0:i0 + len(between.strip())]
                if any(not (c[3] + 1 <= q <= c[4]) for q in pp):
                    raise Violation('language-change-placeholder-position', case, dict(det, positions=list(pp), insertion=[c[3] + 1, c[4]]))
            else:
                if (la, ia) == (lb, ib):
                    raise Violation('long-insertion-did-not-end-the-part', case, dict(det, words=k))
    nlang = len(set(l for _, _, l in m.words))
    return m, src, nlang >= 2 and m.nested, nclaims, nlang


def replay(case):
    from vlib.docprop import untuple
    try:
        check(untuple(case['doc']))
    except Violation as v:
        return v
    return None


def run_shard(ctx):
    def one(doc):
        m, src, nt, nclaims, nlang = check(doc)
        for k, n in m.excl.items():
            ctx.stats.excluded[k] += n
        cl = ['languages:%d' % min(nlang, 3)] + (['nested'] if m.nested else []) + (['threshold-claims'] if nclaims else [])
        ctx.stats.case(key=src, nontrivial=nt, classes=cl, n=2,
                       sample={'src': src, 'threshold': doc[1]})
    hyp_run(ctx, doc_s, one, ctx.n(20000, 400000))
