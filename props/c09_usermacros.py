"""C09 - user macro definitions expand by TeX substitution, in order, from any source.

(a) reference expander: the generated document is a tree of words, macro
    definitions (\\newcommand / \\renewcommand with parameter count and optional
    default, \\def with undelimited parameters) and uses; a reference
    implementation of substitution predicts the exact sequence of visible
    characters, the exact offset of every character that comes from an actual
    argument and the span (the outermost source-level call) every character of
    a macro body must map into.
(b) metamorphic: the definitions D in the document, in the definitions option
    and in a file read by \\LTinput give the same text for the rest B, with
    positions shifted by a constant; the definition lines leave no text.
"""
import os
import re

from hypothesis import strategies as st

from vlib import sut
from vlib.runner import Violation, hyp_run, sut_frame, watchdog

ID = 'C09'
LEVEL = 'exploration'
RULE = ('Hypothesis: 1-5 non-recursive definitions (\\newcommand/\\renewcommand with 0-9 parameters and optional default, \\def with undelimited parameters; bodies of literal words, #k unused/once/twice, '
        'calls of earlier definitions with arguments built from literals and parameters, inline maths, vanishing macros, footnotes) and documents using them: braced and single-token arguments, '
        'omitted / given optional argument, arguments containing other calls, uses before the definition, redefinition between uses, definitions and uses inside groups; '
        'oracle (a) reference expander: exact non-blank output sequence (main flow then footnote flows), exact offsets for argument text, call-span membership for body text; '
        '(b) three ways of supplying the definitions agree up to a constant position shift. '
        'non-trivial = a use whose argument contains another call, or an omitted optional argument, or a parameter used twice; distinct by source text')
RULE += ' Additions: in every second document each later macro name is a proper prefix of the earlier names; optional arguments also given without protecting braces and containing an opening bracket.'
ASSUMPTIONS = [
    'definitions are non-recursive by construction (bodies call earlier definitions only; redefinitions keep that order)',
    'a macro is never applied to itself or to a single-token argument that is a macro taking arguments',
    'before its definition a macro is used without optional argument (an unknown macro leaves [..] in the text, which is outside the claim)',
]
LEVEL_TEXT = ('Generated search against a reference implementation of macro substitution (differential) plus a metamorphic relation between the three definition sources.')
LEVEL_NOTE = 'Trusted: the reference expander (about 120 lines). Sampling only.'
TECHNIQUE = 'Hypothesis definition/use tree generator + reference substitution expander; metamorphic comparison of definition sources'
INLINE_PH = ['B-B-B', 'C-C-C', 'D-D-D', 'E-E-E', 'F-F-F', 'G-G-G']

simple = st.one_of(st.just(('lit',)), st.tuples(st.just('par'), st.integers(0, 8)))
belem = st.one_of(st.just(('lit',)), st.just(('lit',)), st.tuples(st.just('pardigit'), st.integers(0, 8), st.sampled_from(['0', '00', '7', '12'])), st.tuples(st.just('par'), st.integers(0, 8)), st.tuples(st.just('par'), st.integers(0, 8)),
                  st.tuples(st.just('call'), st.integers(0, 8), st.lists(st.lists(simple, min_size=1, max_size=2), min_size=0, max_size=3), st.booleans()),
                  st.just(('math',)), st.just(('vanish',)), st.tuples(st.just('foot'), st.lists(simple, min_size=1, max_size=2)))
macro = st.tuples(st.sampled_from(['newcommand', 'newcommand', 'def']), st.sampled_from([0, 1, 1, 2, 2, 2, 3, 3, 4, 9]), st.booleans(),
                  st.lists(belem, min_size=0, max_size=4))


PACKAGE_MACROS = [('amsmath', '\\eqref'), ('amsthm', '\\qedhere'), ('xcolor', '\\textcolor'), ('graphicx', '\\includegraphics'),
                  ('hyperref', '\\url'), ('amsmath', '\\medspace'), ('xspace', '\\xspace')]


def delem(child):
    arg = st.one_of(st.tuples(st.just('braced'), child), st.tuples(st.just('braced'), child), st.tuples(st.just('single'), st.sampled_from('xyz')),
                    st.tuples(st.just('cw'), st.sampled_from(['LaTeX', 'TeX', 'ss']), st.booleans()))
    return st.one_of(
        st.just(('w',)), st.just(('w',)),
        st.tuples(st.just('use'), st.integers(0, 8), st.booleans(), st.lists(arg, min_size=0, max_size=3), child),
        st.tuples(st.just('use'), st.integers(0, 8), st.booleans(), st.lists(arg, min_size=0, max_size=3), child),
        st.tuples(st.just('use'), st.integers(0, 8), st.booleans(), st.lists(arg, min_size=0, max_size=3), child),
        st.tuples(st.just('wrap'), child),
        st.tuples(st.just('define'),),
        st.tuples(st.just('redef'), st.integers(0, 8), macro))


dleaf = st.lists(st.just(('w',)), min_size=1, max_size=2)
dflow = st.recursive(dleaf, lambda c: st.lists(delem(c), min_size=1, max_size=4), max_leaves=10)
doc_s = st.tuples(st.lists(macro, min_size=1, max_size=5), st.lists(delem(dflow), min_size=2, max_size=6), st.sampled_from([0, 1, 2, 3, 5, 5, 5]))


class Mac:
    def __init__(self, name, kind, n, default, body, lits):
        self.name, self.kind, self.n, self.default, self.body, self.lits = name, kind, n, default, body, lits


class Ctx:
    def __init__(self):
        self.src = ''
        self.nw = 0

    def word(self, p):
        self.nw += 1
        return p + ''.join('abcdefghij'[int(d)] for d in '%03d' % self.nw) + 'q'


def resolve_body(raw, n, idx, c):
    """resolve raw body elements for a macro with n parameters defined as number idx; returns (elements, source text)"""
    out = []
    txt = []
    for e in raw:
        if e[0] == 'lit' or (e[0] == 'par' and n == 0) or (e[0] == 'call' and idx == 0):
            w = c.word('B')
            out.append(('lit', w))
            txt.append(w)
        elif e[0] == 'pardigit' and n == 0:
            out.append(('lit', e[2]))
            txt.append(e[2])
        elif e[0] == 'pardigit':
            k = e[1] % n + 1
            out.append(('par', k))
            out.append(('lit', e[2], 'glued'))
            txt.append('#%d%s' % (k, e[2]))
        elif e[0] == 'par':
            k = e[1] % n + 1
            out.append(('par', k))
            txt.append('#%d' % k)
        elif e[0] == 'call':
            out.append(('call', e[1] % idx, e[2], e[3]))
            txt.append(None)        # rendered when the target is known
        elif e[0] == 'math':
            out.append(('math',))
            txt.append('$a+b$')
        elif e[0] == 'vanish':
            out.append(('vanish',))
            txt.append('\\label{kk}')
        elif e[0] == 'foot':
            sub, t = resolve_body(e[1], n, 0, c)
            out.append(('foot', sub))
            txt.append('\\footnote{' + ' '.join(t) + '}')
    return out, txt


def build_macros(specs, c):
    macs = []
    # in every second document the name of each later macro is a proper prefix of all earlier names
    # (bodies call earlier definitions only; seeded change C09-H)
    chain = sum(sp[1] for sp in specs) % 2 == 0
    for idx, (kind, n, dflt, raw) in enumerate(specs):
        name = '\\zzm' + ('abcde'[:5 - idx] if chain else 'abcdefghi'[idx])
        if kind == 'def':
            dflt = False
        if n == 0:
            dflt = False
        mk = make_macro(name, kind, n, dflt, raw, idx, macs, c)
        macs.append(mk)
    return macs


def make_macro(name, kind, n, dflt, raw, idx, macs, c):
    body, txt = resolve_body(raw, n, idx, c)
    default = c.word('D') if dflt else None
    # render calls in the body
    parts = []
    body_it = [e for e in body]
    aligned = []
    i = 0
    for t in txt:
        e = body_it[i]
        i += 1
        if t is not None and e[0] == 'par' and t != '#%d' % e[1]:
            i += 1          # '#k' + digits produced a parameter and a literal
        aligned.append((e, t))
    for e, t in aligned:
        if e[0] == 'call':
            tgt = macs[e[1]]
            s = tgt.name
            args = []
            k0 = 0
            given_opt = tgt.default is not None and e[3]
            for k in range(tgt.n):
                sub, st_ = resolve_body(e[2][k] if k < len(e[2]) else [('lit',)], n, 0, c)
                args.append(sub)
                if k == 0 and tgt.default is not None:
                    if given_opt:
                        s += '[{' + ' '.join(st_) + '}]'
                    continue
                s += '{' + ' '.join(st_) + '}'
            if tgt.n == 0:
                s += '{}'
            parts.append(s)
            e_new = ('call', tgt.name, args, given_opt)
            body[body.index(e)] = e_new
        else:
            parts.append(t)
    m = Mac(name, kind, n, default, body, None)
    m.body_src = ' '.join(parts)
    # a blank directly behind a control word is no token (TeX): no claim for it
    m.cw_end = set()
    k = 0
    for (e, t), ptxt in zip(aligned, parts):
        k += 2 if (e[0] == 'par' and ptxt != '#%d' % e[1]) else 1
        if re.search(r'\\[a-zA-Z@]+$', ptxt):
            m.cw_end.add(k - 1)
    return m


def def_source(m, cmd=None):
    if m.kind == 'def':
        return '\\def' + m.name + ''.join('#%d' % k for k in range(1, m.n + 1)) + '{' + m.body_src + '}\n'
    s = '\\' + (cmd or 'newcommand') + '{' + m.name + '}'
    if m.n:
        s += '[%d]' % m.n
    if m.default is not None:
        s += '[' + m.default + ']'
    return s + '{' + m.body_src + '}\n'


# ----------------------------------------------------------- rendering the document

def render_nodes(c, fl, macs, depth=0, in_arg=False):
    """returns source-level nodes; appends text to c.src"""
    nodes = []
    for e in fl:
        k = e[0]
        if k == 'w':
            w = c.word('W')
            nodes.append(('w', w, len(c.src)))
            c.src += w + ' '
        elif k == 'wrap':
            c.src += '\\zzbf{'
            sub = render_nodes(c, e[1], macs, depth + 1, in_arg)
            c.src += '} '
            nodes.append(('group', sub))
        elif k in ('define', 'redef') and in_arg:
            continue        # a definition inside an argument is executed only if the parameter is used
        elif k == 'define':
            nxt = c.next_def
            if nxt < len(macs):
                c.next_def += 1
                c.src += def_source(macs[nxt])
                nodes.append(('define', macs[nxt]))
        elif k == 'redef':
            idx = e[1] % len(macs)
            if idx >= c.next_def:
                continue
            old = macs[idx]
            kind, n, dflt, raw = e[2]
            new = make_macro(old.name, 'newcommand', old.n, old.default is not None, raw, idx, macs, c)
            new.default = c.word('D') if old.default is not None else None
            c.src += def_source(new, 'renewcommand')
            nodes.append(('define', new))
        elif k == 'use':
            idx = e[1] % len(macs)
            m = macs[idx]
            lo = len(c.src)
            c.src += m.name
            defined = idx < c.next_def
            opt = None
            args = []
            given_opt = m.default is not None and e[2] and defined
            first = True
            for kk in range(m.n):
                if kk == 0 and m.default is not None:
                    if given_opt and e[4] and all(x == ('w',) for x in e[4]) and (len(c.src) + kk) % 2 == 0:
                        # plain words and an opening bracket, not protected by braces: the argument
                        # ends at the first closing bracket (seeded change C09-G)
                        # (the bracket does not open the value: a body may put the parameter behind a macro
                        # that looks for an optional argument)
                        c.src += '['
                        opt = render_nodes(c, e[4][:1], macs, depth + 1, True)
                        opt.append(('w', '[', len(c.src)))
                        c.src += '[ '
                        opt += render_nodes(c, e[4][1:], macs, depth + 1, True)
                        c.src += ']'
                    elif given_opt:
                        c.src += '[{'
                        opt = render_nodes(c, e[4], macs, depth + 1, True)
                        c.src += '}]'
                    continue
                a = e[3][kk % 3] if kk % 3 < len(e[3]) and kk < 4 else ('braced', [('w',)])
                if a[0] == 'cw' and defined:
                    # exactly one control word as argument, braced or not
                    c.src += '{' if a[2] else ''
                    o = len(c.src)
                    c.src += '\\' + a[1]
                    args.append(('cw', {'LaTeX': 'LaTeX', 'TeX': 'TeX', 'ss': '\u00df'}[a[1]], o, len(c.src)))
                    c.src += '}' if a[2] else ''
                elif a[0] == 'single' and defined:
                    c.src += ' '
                    args.append(('single', a[1], len(c.src)))
                    c.src += a[1]
                else:
                    c.src += '{'
                    sub = render_nodes(c, a[1] if a[0] == 'braced' else [('w',)], macs, depth + 1, True)
                    c.src += '}'
                    args.append(('nodes', sub))
            if m.n == 0:
                c.src += '{}'
            hi = len(c.src)
            c.src += ' '
            nodes.append(('use', m.name, lo, hi, opt, args))
    return nodes


# ----------------------------------------------------------- reference expansion

class Exp:
    def __init__(self):
        self.macros = {}
        self.main = []
        self.flows = [self.main]
        self.done = []
        self.nmath = 0
        self.feat = set()

    def cur(self):
        return self.flows[-1]


def expand_nodes(x, nodes, span=None):
    for nd in nodes:
        k = nd[0]
        if k == 'w':
            x.cur().append(('w', nd[1], nd[2]))
        elif k == 'group':
            expand_nodes(x, nd[1], span)
        elif k == 'define':
            x.macros[nd[1].name] = nd[1]
        elif k == 'use':
            name, lo, hi, opt, args = nd[1:]
            sp = span or (lo, hi)
            if name not in x.macros:
                x.feat.add('use-before-definition')
                for a in args:
                    if a[0] == 'nodes':
                        expand_nodes(x, a[1], span)
                    elif a[0] == 'cw':
                        x.cur().append(('g', a[1], (a[2], a[3])))
                    else:
                        x.cur().append(('w', a[1], a[2]))
                continue
            m = x.macros[name]
            x.feat.add('use-of-defined-macro')
            binding = {}
            ai = 0
            for kk in range(1, m.n + 1):
                if kk == 1 and m.default is not None:
                    if opt is not None:
                        binding[1] = ('nodes', opt, span)
                    else:
                        binding[1] = ('default', m.default)
                        x.feat.add('omitted-optional')
                    continue
                if ai < len(args):
                    a = args[ai]
                    ai += 1
                    binding[kk] = ('nodes', a[1], span) if a[0] == 'nodes' else ((a[0],) + tuple(a[1:]))
                    if a[0] == 'cw':
                        x.feat.add('control-word-argument')
                    if a[0] == 'nodes' and any(n_[0] == 'use' for n_ in a[1]):
                        x.feat.add('call-in-argument')
            expand_body(x, m.body, binding, sp, m.cw_end)
            if m.default is not None and opt is None and m.n == 1:
                # still looking for its optional argument: blanks that follow are skipped, as in TeX
                x.cur().append(('nosp',))


def expand_body(x, body, binding, span, cw_end=()):
    seen = {}
    for n_, e in enumerate(body):
        if n_ and not (e[0] == 'lit' and len(e) > 2) and (n_ - 1) not in cw_end:
            x.cur().append(('sp',))     # the elements of a body are separated by one blank
        if e[0] == 'lit':
            x.cur().append(('g', e[1], span))
        elif e[0] == 'par':
            seen[e[1]] = seen.get(e[1], 0) + 1
            if seen[e[1]] == 2:
                x.feat.add('parameter-twice')
            expand_value(x, binding.get(e[1]), span)
        elif e[0] == 'call':
            name, args, given_opt = e[1], e[2], e[3]
            m = x.macros.get(name)
            if m is None:
                continue
            b2 = {}
            for kk in range(1, m.n + 1):
                if kk == 1 and m.default is not None:
                    if given_opt:
                        b2[1] = ('body', args[0], binding)
                    else:
                        b2[1] = ('default', m.default)
                    continue
                b2[kk] = ('body', args[kk - 1], binding)
            expand_body(x, m.body, b2, span, m.cw_end)
            if m.default is not None and not given_opt and m.n == 1:
                # as for a use in the document: still looking for its optional argument, blanks that follow are skipped
                x.cur().append(('nosp',))
        elif e[0] == 'math':
            x.nmath += 1
            x.cur().append(('g', INLINE_PH[x.nmath % 6], span))
        elif e[0] == 'foot':
            fl = []
            x.flows.append(fl)
            expand_body(x, e[1], binding, span)
            x.flows.pop()
            x.done.append(fl)
            x.feat.add('footnote-in-body')


def expand_value(x, val, span):
    if val is None:
        return
    if val[0] == 'nodes':
        expand_nodes(x, val[1], val[2])
    elif val[0] == 'single':
        x.cur().append(('w', val[1], val[2]))
    elif val[0] == 'cw':
        x.cur().append(('g', val[1], (val[2], val[3])))
    elif val[0] == 'default':
        x.cur().append(('g', val[1], span))
    elif val[0] == 'body':
        expand_body(x, val[1], val[2], span)


def blank(c):
    return c.isspace()


def compare(x, plain, pos, shift, case, src):
    exp = []
    gaps = set()        # indices i: a body blank stands between expected characters i-1 and i (same flow)
    for f in [x.main] + x.done:
        pending = False
        first = True
        noclaim = False
        for a in f:
            if a[0] == 'nosp':
                noclaim = True
                continue
            if a[0] == 'sp':
                pending = (not first) and not noclaim
                continue
            if pending and a[1]:
                gaps.add(len(exp))
            if a[1]:
                pending = False
                first = False
                noclaim = False
            if a[0] == 'w':
                for i, ch in enumerate(a[1]):
                    exp.append((ch, a[2] + i + 1, a[2] + i + 1))
            else:
                for ch in a[1]:
                    exp.append((ch, a[2][0] + 1, a[2][1]))
    act = [(ch, p) for ch, p in zip(plain, pos) if not blank(ch)]
    idx = [i for i, ch in enumerate(plain) if not blank(ch)]
    et = ''.join(e[0] for e in exp)
    at = ''.join(a[0] for a in act)
    if et != at:
        k = next((i for i in range(min(len(et), len(at))) if et[i] != at[i]), min(len(et), len(at)))
        raise Violation('expansion-differs', case, {'expected': et, 'actual': at, 'expected_there': et[k:k + 30], 'actual_there': at[k:k + 30], 'plain': plain})
    for g in gaps:
        if 0 < g < len(idx) and idx[g] == idx[g - 1] + 1:
            raise Violation('blank-of-macro-body-lost', case, {'between': [et[max(0, g - 8):g], et[g:g + 8]], 'plain': plain})
    for e, a in zip(exp, act):
        if not (e[1] <= a[1] - shift <= e[2]):
            kind = 'argument-text-position' if e[1] == e[2] else 'body-text-outside-call'
            raise Violation(kind, case, {'char': e[0], 'allowed': [e[1], e[2]], 'actual': a[1] - shift, 'plain': plain})


def check(doc):
    specs, fl, nfirst = doc
    c = Ctx()
    macs = build_macros(specs, c)
    nfirst = min(nfirst, len(macs))
    all_first = nfirst == len(macs)
    prefix = ''
    for m in macs[:nfirst]:
        prefix += def_source(m)
    c.next_def = nfirst
    c.src = prefix
    nodes = render_nodes(c, fl, macs)
    nodes = [('define', m) for m in macs[:nfirst]] + nodes
    src = c.src + '\n'
    case = {'doc': doc, 'src': src}
    x = Exp()
    expand_nodes(x, nodes)
    try:
        with watchdog(20):
            (plain, pos), err = sut.tex2txt(src, lang='en', pack='*')
    except Exception as e:
        raise Violation('exception:' + sut_frame(e), case, repr(e))
    if err:
        raise Violation('diagnostic-on-well-formed-document', case, err)
    compare(x, plain, list(pos), 0, case, src)
    routes = 1
    if all_first:
        body = src[len(prefix):]
        d = sut.scratch_dir()
        os.chdir(d)
        with open(os.path.join(d, 'zzdefs.tex'), 'w', encoding='utf-8') as f:
            f.write(prefix)
        try:
            with watchdog(40):
                (p2, m2), e2 = sut.tex2txt(body, lang='en', pack='*', defs=prefix)
                (p3, m3), e3 = sut.tex2txt('\\LTinput{zzdefs.tex}\n' + body, lang='en', pack='*')
                # reading the same definitions twice is the same as reading them once
                (p4, m4), e4 = sut.tex2txt('\\LTinput{zzdefs.tex}\n\\LTinput{zzdefs.tex}\n' + body, lang='en', pack='*')
        except (Exception, SystemExit) as e:
            raise Violation('exception:' + sut_frame(e), case, repr(e))
        if e2 or e3 or e4:
            raise Violation('diagnostic-on-well-formed-document', case, e2 + e3 + e4)
        a1 = [(ch, p - len(prefix)) for ch, p in zip(plain, pos) if not blank(ch)]
        a2 = [(ch, p) for ch, p in zip(p2, m2) if not blank(ch)]
        a3 = [(ch, p - len('\\LTinput{zzdefs.tex}\n')) for ch, p in zip(p3, m3) if not blank(ch)]
        a4 = [(ch, p - 2 * len('\\LTinput{zzdefs.tex}\n')) for ch, p in zip(p4, m4) if not blank(ch)]
        if a3 != a4:
            raise Violation('definition-source-changes-result:LTinput-twice', case, {'once': p3, 'twice': p4})
        if a1 != a2 or a1 != a3:
            which = 'definitions-option' if a1 != a2 else 'LTinput-file'
            raise Violation('definition-source-changes-result:' + which, case,
                            {'in_document': plain, 'definitions_option': p2, 'LTinput': p3,
                             'first_difference': next(((u, v) for u, v in zip(a1, a2 if a1 != a2 else a3) if u != v), None)})
        routes = 3
        # a user redefinition of a package macro survives a repeated \usepackage of the same package (LaTeX loads a
        # package once; round-5 seed C03-I): the last macro, which no other body calls, takes the name of a package macro
        chain = sum(sp[1] for sp in specs) % 2 == 0
        if macs and not chain and macs[-1].name in body:
            m = macs[-1]
            pk, pname = PACKAGE_MACROS[(len(src) + m.n) % len(PACKAGE_MACROS)]
            copt = ['', '[12pt]', '[a4paper,12pt]', '[12pt]'][len(body) % 4]
            defs = ''.join(def_source(k) for k in macs[:-1]) + def_source(m, 'renewcommand')
            head = '\\documentclass' + copt + '{article}\n\\usepackage{' + pk + '}\n'
            again = '\\usepackage{' + pk + '}\n'
            va = (head + defs + body).replace(m.name, pname)
            vb = (head + defs + again + body).replace(m.name, pname)
            try:
                with watchdog(40):
                    (pa, _), ea = sut.tex2txt(va, lang='en')
                    (pb, _), eb = sut.tex2txt(vb, lang='en')
            except (Exception, SystemExit) as e:
                raise Violation('exception:' + sut_frame(e), case, repr(e))
            if pa != pb or ea != eb:
                raise Violation('redefinition-lost-by-repeated-usepackage', dict(case, variant=vb),
                                {'loaded_once': pa, 'loaded_twice': pb, 'stderr_once': ea, 'stderr_twice': eb})
            x.feat.add('package-macro-redefined')
            routes = 4
    nt = bool(x.feat & {'call-in-argument', 'omitted-optional', 'parameter-twice'})
    return src, nt, x.feat, routes


def replay(case):
    from vlib.docprop import untuple
    try:
        check(untuple(case['doc']))
    except Violation as v:
        return v
    return None


def run_shard(ctx):
    def one(doc):
        src, nt, feat, routes = check(doc)
        ctx.stats.case(key=src, nontrivial=nt, classes=sorted(feat) + (['three-definition-sources'] if routes == 3 else ['definitions-interleaved']),
                       n=routes, sample={'src': src})
    hyp_run(ctx, doc_s, one, ctx.n(20000, 200000))
