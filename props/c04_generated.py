"""C04 - generated text maps into the source span of its construct (annotated document generator)."""
from vlib import docprop

ID = 'C04'
LEVEL = 'exploration'
RULE = docprop.RULE_PREFIX + ('oracle: every generated non-blank character (placeholders of references, citations and maths, item labels, heading full stop, theorem/proof titles, '
        'user-macro body text, optional-argument defaults, glossary text) maps into [first, last] offset of the construct that produced it; blanks between two located atoms map '
        'between the start of the first and the end of the second; the three line breaks in front of a detached flow map into the detached construct. '
        'non-trivial = at least two generating constructs, or a generating construct nested in another construct; distinct by source text')
ASSUMPTIONS = docprop.ASSUMPTIONS
LEVEL_TEXT = ('Generated search; the renderer records the source span of every generating construct, the oracle checks interval membership of every generated character.')
LEVEL_NOTE = 'Trusted: the renderer/annotation code (docgen.py). Sampling only.'
TECHNIQUE = 'Hypothesis tree-structured document generator + span-membership oracle for generated characters'


def judge(m, v, case):
    if v.c04:
        return 'generated-text-position', v.c04[:5]
    return None


def ngen(m):
    from vlib import docgen
    return sum(1 for f, _, _ in docgen.flows_of(m) for a in f if a[0] == 'g')


def nontrivial(m, v):
    return v.aligned and ngen(m) >= 2


def classes(m, v):
    return sorted(m.features & {'gen', 'usermacro', 'glossary', 'list', 'theorem', 'heading', 'inline-maths', 'detached', 'par-env', 'duplicating-macro'})


run_shard, replay = docprop.make(ID, judge, nontrivial, classes, quick=40000, thorough=333333)
