"""C07 generator 4 (thorough tier): coverage-guided fuzzing with atheris under python3-vt, one campaign per shard."""
import json
import os
import shutil
import subprocess

from vlib import sut

PY = '/opt/veriftools/pyvenv/bin/python'


def run(ctx, record, verdict):
    if not os.path.exists(PY):
        ctx.stats.extra['atheris'] = 'python3-vt not available: campaign skipped'
        return
    d = os.path.join(sut.scratch_dir(), 'atheris')
    os.makedirs(os.path.join(d, 'corpus'), exist_ok=True)
    findings = os.path.join(d, 'findings.jsonl')
    here = os.path.dirname(os.path.dirname(os.path.abspath(__file__)))
    env = dict(os.environ, PYTHONPATH=sut.REPO + os.pathsep + here, VERIF_REPO=sut.REPO, PYTHONHASHSEED='0')
    runs = 4000
    cmd = [PY, os.path.join(here, 'vlib', 'atheris_c07.py'), findings, '-runs=%d' % runs, '-seed=%d' % (ctx.shard_seed + 1),
           '-max_len=64', '-timeout=20', '-artifact_prefix=' + d + '/', os.path.join(d, 'corpus')]
    try:
        p = subprocess.run(cmd, cwd=d, env=env, stdout=subprocess.PIPE, stderr=subprocess.STDOUT, timeout=1500)
        out = p.stdout.decode('utf-8', 'replace')
    except subprocess.TimeoutExpired:
        ctx.stats.extra['atheris'] = 'campaign exceeded its time budget (inconclusive)'
        return
    done = 0
    for line in out.splitlines():
        if line.startswith('#') and 'DONE' in line:
            try:
                done = int(line.split()[0][1:])
            except ValueError:
                pass
    ctx.stats.extra['atheris_executions'] = ctx.stats.extra.get('atheris_executions', 0) + (done or runs)
    cov = [l for l in out.splitlines() if ' cov: ' in l]
    if cov:
        ctx.stats.extra.setdefault('atheris_last_status', cov[-1][:120])
    if os.path.exists(findings):
        for line in open(findings, encoding='utf-8'):
            f = json.loads(line)
            # confirm in-process with the ordinary oracle; the decoded input is the replay unit
            v = verdict(f['src'], f['opts'], f['ml'], None)
            record(ctx, f['src'], f['opts'], f['ml'], None, 'atheris', v)
    ctx.stats.case(key=('atheris', ctx.shard), classes=['atheris-campaign'], n=done or runs)
    shutil.rmtree(d, ignore_errors=True)
